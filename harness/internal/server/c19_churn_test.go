package server

// C19, part "churn": several clients at once. A few clients of GET
// /events/stream connect and hang up in a loop (right after the stream is
// established, after some events were delivered, or never before the end)
// while 2-4 other clients send VALID data-plane requests (add, add-batch,
// delete, reinforce, evolve, link, unlink, invalidate, set-node-properties, KV
// writes, reads) to the same server. The statement quantifies over every
// request; what another client does at the same moment is not an excuse, so
// the per-request part of the oracle is the one of the sequential parts:
// every request is answered, never through the panic-recovery path, with a
// well-formed response, and 4xx where the statement demands 4xx. (The "4xx
// leaves the database unchanged" clause cannot be observed per request while
// other clients write, and is not judged here.)
//
// Everything is bounded by counts: every writer sends its request list a fixed
// number of times; the stream clients cycle until the writers are done. No
// verdict depends on how long anything took, except the confirmed-hang rule
// shared with the other parts (20 s without an answer, then 100 s more).

import (
	"bytes"
	"context"
	"fmt"
	"io"
	"net/http"
	"net/url"
	"strconv"
	"strings"
	"sync"
	"sync/atomic"
	"testing"
	"time"

	"github.com/sanonone/kektordb/internal/verifkit"
	"pgregory.net/rapid"
)

// c19ChurnStream is one client of GET /events/stream. It reconnects in a loop
// until all writers are done.
type c19ChurnStream struct {
	// Linger: 0 = hang up as soon as the stream is established (headers flushed);
	// n > 0 = hang up after n events were delivered on this connection (or when the writers are done);
	// -1 = stay connected until the writers are done.
	Linger int `json:"linger"`
}

type c19ChurnCase struct {
	Streams []c19ChurnStream `json:"streams"`
	Writers [][]c19Req       `json:"writers"` // every writer sends its list Rounds times, one request after the other
	Rounds  int              `json:"rounds"`  // {{W}} in a target / body = writer number, {{N}} = round number
}

const (
	c19PHWriter = "{{W}}"
	c19PHRound  = "{{N}}"
)

// routes a churn writer may draw a free-form valid request from (data plane,
// no index life-cycle / maintenance / persistence commands: concurrency of
// those with writers is the subject of C13 / C14)
var c19ChurnGeneric = []string{
	"GET /kv/{key}", "POST /kv/{key}", "PUT /kv/{key}", "DELETE /kv/{key}",
	"GET /vector/indexes", "GET /vector/indexes/{name}", "GET /vector/indexes/{name}/vectors/{id}",
	"POST /vector/actions/add", "POST /vector/actions/add-batch", "POST /vector/actions/search", "POST /vector/actions/search-with-scores",
	"POST /vector/actions/delete_vector", "POST /vector/actions/get-vectors", "POST /vector/actions/reinforce", "POST /vector/actions/belief-assessment",
	"POST /vector/actions/evolve", "POST /vector/actions/get-evolution",
	"POST /graph/actions/link", "POST /graph/actions/unlink", "POST /graph/actions/get-links", "POST /graph/actions/get-connections",
	"POST /graph/actions/traverse", "POST /graph/actions/get-incoming", "POST /graph/actions/extract-subgraph", "POST /graph/actions/set-node-properties",
	"POST /graph/actions/get-node-properties", "POST /graph/actions/search-nodes", "POST /graph/actions/get-edges", "POST /graph/actions/find-path",
	"POST /graph/actions/get-all-relations", "POST /graph/actions/get-all-incoming", "POST /graph/actions/invalidate",
	"GET /system/stats", "GET /metrics", "GET /healthz", "POST /ui/explore",
}

// churnWriter draws the request list of one writer. Ids: the fixture nodes
// v0..v3, nodes of this writer and round (a{{W}}-{{N}}, t{{W}}-{{N}}), a node per
// writer (s{{W}}), so that writers both share items and own items.
func (g *c19G) churnWriter() []c19Req {
	var out []c19Req
	post := func(path, body, class string) {
		out = append(out, c19Req{Method: "POST", Target: path, Body: body, Route: "POST " + path, Mut: []string{"churn:" + class}})
	}
	own := `"a` + c19PHWriter + `-` + c19PHRound + `"`
	tgt := `"t` + c19PHWriter + `-` + c19PHRound + `"`
	src := `"s` + c19PHWriter + `"`
	node := func(label string) string {
		return g.oneOf(label, own, `"v0"`, `"v1"`, `"v2"`, `"v3"`, src, tgt, own)
	}
	vec := func() string {
		return g.oneOf("cvec", `[0.1,0.2,0.3]`, `[`+c19PHRound+`,`+c19PHWriter+`,1]`, `[0,0,0]`, `[1,2,3]`, `[-1,0.5,`+c19PHRound+`]`)
	}
	meta := func() string {
		switch g.pick("cmeta", 4) {
		case 0:
			return ""
		case 1:
			return `,"metadata":` + c19Render(g.nestedMeta())
		default:
			return `,"metadata":{"type":"doc","n":` + c19PHRound + `,"content":"text of writer ` + c19PHWriter + ` round ` + c19PHRound + `","chat":"c` + c19PHWriter + `"}`
		}
	}
	rel := func() string {
		return g.oneOf("crel", `"rel"`, `"r`+c19PHWriter+`"`, `"rel"`, `"inv"`, `"superseded_by"`)
	}
	for i, n := 0, 2+g.pick("cwlen", 5); i < n; i++ {
		switch g.pick("cwkind", 20) {
		case 0, 1, 2, 3:
			extra := ""
			if g.chance("clinv", 1, 3) {
				extra += `,"inverse_relation_type":"inv"`
			}
			if g.chance("clw", 1, 3) {
				extra += `,"weight":` + g.oneOf("clwv", `0.5`, `1`, `0`, `-1`)
			}
			if g.chance("clp", 1, 3) {
				extra += `,"props":{"a":` + c19PHRound + `}`
			}
			post("/graph/actions/link", `{"index_name":"fx","source_id":`+node("clsrc")+`,"target_id":`+node("cltgt")+`,"relation_type":`+rel()+extra+`}`, "link")
		case 4, 5:
			extra := ""
			if g.chance("culinv", 1, 3) {
				extra += `,"inverse_relation_type":"inv"`
			}
			if g.chance("culhard", 1, 3) {
				extra += `,"hard_delete":true`
			}
			post("/graph/actions/unlink", `{"index_name":"fx","source_id":`+node("culsrc")+`,"target_id":`+node("cultgt")+`,"relation_type":`+rel()+extra+`}`, "unlink")
		case 6, 7, 8:
			ix := g.oneOf("caddix", "fx", "fx", "fx", "fe")
			id := g.oneOf("caddid", own, own, own, tgt, `"v2"`)
			post("/vector/actions/add", `{"index_name":"`+ix+`","id":`+id+`,"vector":`+vec()+meta()+`}`, "add")
		case 9:
			post("/vector/actions/add-batch", `{"index_name":"fx","vectors":[{"id":"b`+c19PHWriter+`-`+c19PHRound+`-0","vector":`+vec()+meta()+`},{"id":`+tgt+`,"vector":`+vec()+`}]}`, "add-batch")
		case 10, 11:
			post("/vector/actions/delete_vector", `{"index_name":"fx","id":`+node("cdelid")+`}`, "delete")
		case 12, 13:
			post("/vector/actions/reinforce", `{"index_name":"fx","ids":[`+node("creinf1")+`,`+node("creinf2")+`]}`, "reinforce")
		case 14:
			post("/vector/actions/evolve", `{"index_name":"fx","old_id":`+node("cevid")+`,"new_vector":`+vec()+`,"new_metadata":{"type":"doc","rev":`+c19PHRound+`},"reason":"update"}`, "evolve")
		case 15, 16:
			post("/graph/actions/set-node-properties", `{"index_name":"fx","node_id":`+node("cspid")+`,"properties":{"p":`+c19PHRound+`,"q":"w`+c19PHWriter+`"}}`, "set-node-properties")
		case 17:
			post("/graph/actions/invalidate", `{"index_name":"fx","target_id":`+node("cinvt")+`,"source_id":`+node("cinvs")+`,"reason":"stale"}`, "invalidate")
		case 18:
			key := g.oneOf("ckvk", "k0", "k"+c19PHWriter, "k"+c19PHWriter+"-"+c19PHRound)
			if g.chance("ckvdel", 1, 3) {
				out = append(out, c19Req{Method: "DELETE", Target: "/kv/" + key, Route: "DELETE /kv/{key}", Mut: []string{"churn:kv-delete"}})
			} else {
				out = append(out, c19Req{Method: "POST", Target: "/kv/" + key, Body: `{"value":"w` + c19PHWriter + ` r` + c19PHRound + `"}`, Route: "POST /kv/{key}", Mut: []string{"churn:kv-set"}})
			}
		default: // any data-plane route with a valid body drawn by the sequential parts' generator
			spec := c19ChurnGeneric[g.pick("cgen", len(c19ChurnGeneric))]
			m, p, _ := strings.Cut(spec, " ")
			r := g.request(c19RouteByPath(m, p), "", false)
			r.Mut = append(r.Mut, "churn:generic")
			out = append(out, r)
		}
	}
	return out
}

func c19GenChurn() *rapid.Generator[c19ChurnCase] {
	return rapid.Custom(func(t *rapid.T) c19ChurnCase {
		g := &c19G{t: t}
		g.dotdot = 6
		c := c19ChurnCase{}
		for i, n := 0, 1+g.pick("cstreams", 8); i < n; i++ {
			l := 0
			switch g.pick("clinger", 8) {
			case 5:
				l = -1
			case 6:
				l = 1
			case 7:
				l = 2 + g.pick("clingern", 6)
			}
			c.Streams = append(c.Streams, c19ChurnStream{Linger: l})
		}
		for i, n := 0, 2+g.pick("cwriters", 3); i < n; i++ {
			c.Writers = append(c.Writers, g.churnWriter())
		}
		c.Rounds = []int{8, 12, 16, 24, 32, 48, 64, 96}[g.pick("crounds", 8)]
		return c
	})
}

// ---------------------------------------------------------------------------
// stream client transport: an in-memory ResponseWriter + Flusher
// ---------------------------------------------------------------------------

type c19StreamWriter struct {
	mu      sync.Mutex
	hdr     http.Header
	status  int
	n       int // bytes written
	flushes int
	sig     chan struct{} // one token per Flush (dropped when nobody listens and the buffer is full)
}

func c19NewStreamWriter() *c19StreamWriter {
	return &c19StreamWriter{hdr: http.Header{}, sig: make(chan struct{}, 256)}
}
func (w *c19StreamWriter) Header() http.Header { return w.hdr }
func (w *c19StreamWriter) WriteHeader(code int) {
	w.mu.Lock()
	if w.status == 0 {
		w.status = code
	}
	w.mu.Unlock()
}
func (w *c19StreamWriter) Write(p []byte) (int, error) {
	w.mu.Lock()
	if w.status == 0 {
		w.status = 200
	}
	w.n += len(p)
	w.mu.Unlock()
	return len(p), nil
}
func (w *c19StreamWriter) Flush() {
	w.mu.Lock()
	w.flushes++
	w.mu.Unlock()
	select {
	case w.sig <- struct{}{}:
	default:
	}
}

// ---------------------------------------------------------------------------
// interpreter + oracle
// ---------------------------------------------------------------------------

type c19ChurnStats struct {
	labels   []string
	requests int
	hangups  int // stream connections ended by the client while at least one writer was still sending
	events   int // events delivered to stream clients
	ok2xx    int // writer requests answered 2xx
	nontriv  bool
	notes    []string
}

func (st *c19ChurnStats) label(l string) { st.labels = append(st.labels, l) }

func c19Bucket(n int) string {
	switch {
	case n == 0:
		return "0"
	case n < 10:
		return "1-9"
	case n < 100:
		return "10-99"
	case n < 1000:
		return "100-999"
	case n < 10000:
		return "1000-9999"
	}
	return "10000+"
}

// c19JudgeAnswer is the per-request oracle shared with the sequential parts
// (clauses 2 and 3 of c19Run): well-formed response; 4xx where the request
// alone demands it. "" = fine.
func c19JudgeAnswer(what string, resp *c19Resp, body []byte) string {
	pat := resp.pattern
	if resp.status >= 300 && resp.status < 400 {
		pat = ""
	}
	if resp.status < 100 || resp.status > 599 {
		return fmt.Sprintf("%s: status %d", what, resp.status)
	}
	ct := resp.header.Get("Content-Type")
	isJSONCT := strings.HasPrefix(ct, "application/json")
	if isJSONCT && !c19OneJSON(resp.body) {
		return fmt.Sprintf("%s: status %d with Content-Type %s but the body is not one JSON document: %s", what, resp.status, ct, c19Trunc(string(resp.body), 300))
	}
	if resp.status == 204 && len(resp.body) != 0 {
		return fmt.Sprintf("%s: 204 with a body", what)
	}
	if pat != "" && !c19NonJSONPatterns[pat] && !strings.HasPrefix(pat, "/debug/") && resp.status >= 200 && resp.status < 300 && resp.status != 204 && !isJSONCT {
		return fmt.Sprintf("%s: %d from a JSON API route without a JSON content type (%q), body %s", what, resp.status, ct, c19Trunc(string(resp.body), 200))
	}
	if pat != "" {
		if claim := c19BodyClaim(pat, body); claim != "" && !(resp.status >= 400 && resp.status < 500) {
			return fmt.Sprintf("%s: %s must be refused with 4xx, got %d %s", what, claim, resp.status, c19Trunc(string(resp.body), 200))
		}
	}
	return ""
}

// c19RunChurn executes one case against a fresh server. Returns the violation
// in two renderings: stable (a function of the kind of failure only, so that
// the generator library recognises "the same failure" while shrinking) and
// detailed (with the request that was hit), plus a harness error.
func c19RunChurn(c c19ChurnCase, st *c19ChurnStats) (stable, detail string, harnessErr error) {
	if len(c.Writers) == 0 || c.Rounds < 1 || c.Rounds > 4096 || len(c.Streams) > 64 || len(c.Writers) > 64 {
		return "", "", fmt.Errorf("churn case out of harness range")
	}
	env, err := c19NewEnv(verifkit.CaseSeed(verifkit.Hash(c)))
	if err != nil {
		return "", "", err
	}
	closed := false
	defer func() {
		if !closed {
			if note := env.closeWithin(1500 * time.Millisecond); note != "" {
				st.notes = append(st.notes, note)
			}
		}
	}()
	st.label(fmt.Sprintf("churn:streams=%d", len(c.Streams)))
	st.label(fmt.Sprintf("churn:writers=%d", len(c.Writers)))
	st.label(fmt.Sprintf("churn:rounds=%d", c.Rounds))

	var (
		mu         sync.Mutex // guards first*, st.* below
		firstStab  string
		firstDet   string
		hung       atomic.Bool
		stop       atomic.Bool // a violation was seen: everybody finishes early
		writersWG  sync.WaitGroup
		streamsWG  sync.WaitGroup
		writersEnd = make(chan struct{})
		nReq       atomic.Int64
		n2xx       atomic.Int64
		nHang      atomic.Int64
		nEvents    atomic.Int64
		labels     = map[string]int{}
	)
	fail := func(stab, det string) {
		mu.Lock()
		if firstStab == "" {
			firstStab, firstDet = stab, det
		}
		mu.Unlock()
		stop.Store(true)
	}
	count := func(l string) {
		mu.Lock()
		labels[l]++
		mu.Unlock()
	}
	rootEsc := url.PathEscape(env.root)
	panicsBefore := c19Logs.count()
	recoveryBody := []byte(`{"error":"Internal Server Error"}`)

	// ---- writers
	for wi, list := range c.Writers {
		writersWG.Add(1)
		go func(wi int, list []c19Req) {
			defer writersWG.Done()
			for round := 0; round < c.Rounds; round++ {
				for ri, r := range list {
					if stop.Load() {
						return
					}
					sub := func(s string) string {
						s = strings.ReplaceAll(s, c19PHWriter, strconv.Itoa(wi))
						s = strings.ReplaceAll(s, c19PHRound, strconv.Itoa(round))
						s = strings.ReplaceAll(strings.ReplaceAll(s, c19PHEsc, rootEsc), c19PH, env.root)
						return s
					}
					target, body := sub(r.Target), []byte(sub(r.Body))
					if r.Gen != "" || r.Method == c19RestartStep {
						count("skip:not-for-concurrent-use")
						continue
					}
					if err := c19Safe(target, body, env.root); err != nil {
						count("skip:unsafe-request")
						continue
					}
					var rd io.Reader
					if len(body) > 0 {
						rd = bytes.NewReader(body)
					}
					resp, err := env.serve(r.Method, target, rd, 0, c19HangLimit(false))
					if err != nil {
						count("skip:unsendable")
						continue
					}
					nReq.Add(1)
					what := fmt.Sprintf("writer %d round %d request %d (%s %s body=%s), sent while %d event-stream client(s) connect and hang up", wi, round, ri, r.Method, c19Trunc(target, 160), c19Trunc(string(body), 200), len(c.Streams))
					kind := fmt.Sprintf("a valid %s sent while other clients write and event-stream clients connect and hang up", r.Route)
					if resp.hung {
						hung.Store(true)
						fail(c19HungPrefix+kind+": the call did not return", c19HungPrefix+what+": the call did not return within "+(6*c19HangLimit(false)).String())
						return
					}
					if resp.escaped != "" {
						fail(kind+": a panic escaped the whole handler chain: "+resp.escaped, what+": a panic escaped the whole handler chain: "+resp.escaped)
						return
					}
					if c19Logs.count() > panicsBefore {
						// the recovery middleware ran for some request of this phase; its record names method and path
						p, where := c19Logs.last(), c19Logs.lastWhere()
						stab := "a valid request sent while other clients write and event-stream clients connect and hang up was answered through the panic-recovery path: " + c19FirstFrame(p)
						own := r.Method + " " + target
						if u, perr := url.Parse(target); perr == nil {
							own = r.Method + " " + u.Path
						}
						if resp.status == 500 && bytes.Equal(bytes.TrimSpace(resp.body), recoveryBody) && where == own {
							fail(stab, fmt.Sprintf("%s: answered through the panic-recovery path (status %d): %s", what, resp.status, p))
						} else {
							fail(stab, fmt.Sprintf("a request %s of the concurrent phase (%d writers, %d event-stream clients that connect and hang up) was answered through the panic-recovery path: %s (noticed after %s)", where, len(c.Writers), len(c.Streams), p, what))
						}
						return
					}
					if v := c19JudgeAnswer(what, resp, body); v != "" {
						fail(c19JudgeAnswer(kind, resp, body), v)
						return
					}
					if resp.status >= 200 && resp.status < 300 {
						n2xx.Add(1)
					}
					pat := resp.pattern
					if pat == "" {
						pat = "(no handler)"
					}
					count("churn-route:" + pat)
					count("churn-status:" + c19StatusClass(resp.status))
					for _, m := range r.Mut {
						if strings.HasPrefix(m, "churn:") {
							count("churn-answer:" + strings.TrimPrefix(m, "churn:") + ":" + c19StatusClass(resp.status))
						}
					}
				}
			}
		}(wi, list)
	}
	go func() { writersWG.Wait(); close(writersEnd) }()
	writersDone := func() bool {
		select {
		case <-writersEnd:
			return true
		default:
			return false
		}
	}

	// ---- event-stream clients
	for si, sc := range c.Streams {
		streamsWG.Add(1)
		go func(si int, sc c19ChurnStream) {
			defer streamsWG.Done()
			for cycle := 0; !writersDone() && !stop.Load(); cycle++ {
				ctx, cancel := context.WithCancel(context.Background())
				req, err := http.NewRequest("GET", "http://c19.local/events/stream", http.NoBody)
				if err != nil {
					cancel()
					return
				}
				req.RequestURI = "/events/stream"
				req.RemoteAddr = "192.0.2.2:4321"
				req = req.WithContext(ctx)
				w := c19NewStreamWriter()
				done := make(chan struct{})
				escaped := ""
				go func() {
					defer close(done)
					defer func() {
						if r := recover(); r != nil {
							escaped = fmt.Sprint(r)
						}
					}()
					env.srv.httpServer.Handler.ServeHTTP(w, req)
				}()
				returnedAlone := false
				// wait until the stream is established (the handler flushes its headers right after subscribing)
				select {
				case <-w.sig:
				case <-done:
					returnedAlone = true
				}
				got := 0
				if !returnedAlone {
					switch {
					case sc.Linger < 0:
						select {
						case <-writersEnd:
						case <-done:
							returnedAlone = true
						}
					case sc.Linger > 0:
					wait:
						for got < sc.Linger {
							select {
							case <-w.sig:
								got++
							case <-writersEnd:
								break wait
							case <-done:
								returnedAlone = true
								break wait
							}
						}
					}
				}
				during := !writersDone()
				cancel() // the client hangs up
				if !c19AwaitConfirmed(done, c19HangLimit(false)) {
					hung.Store(true)
					fail(c19HungPrefix+"GET /events/stream did not return after its client hung up", fmt.Sprintf("%sstream client %d cycle %d: GET /events/stream did not return within %v after its client hung up", c19HungPrefix, si, cycle, 6*c19HangLimit(false)))
					return
				}
				w.mu.Lock()
				status, flushes := w.status, w.flushes
				ct := w.hdr.Get("Content-Type")
				w.mu.Unlock()
				what := fmt.Sprintf("stream client %d connection %d (GET /events/stream, hang-up %s)", si, cycle, c19LingerName(sc.Linger))
				if escaped != "" {
					fail("GET /events/stream: a panic escaped the whole handler chain: "+escaped, what+": a panic escaped the whole handler chain: "+escaped)
					return
				}
				if status != 200 || !strings.HasPrefix(ct, "text/event-stream") {
					if status == 500 && c19Logs.count() > panicsBefore {
						p := c19Logs.last()
						fail("GET /events/stream was answered through the panic-recovery path: "+c19FirstFrame(p), fmt.Sprintf("%s: answered through the panic-recovery path (status %d): %s", what, status, p))
						return
					}
					count(fmt.Sprintf("churn:stream-answered-%d-instead-of-an-event-stream", status)) // not demanded by the statement: counted, not judged
				}
				if returnedAlone {
					count("churn:stream-ended-by-the-server-before-the-hang-up") // not demanded by the statement either
				}
				if flushes > 1 {
					nEvents.Add(int64(flushes - 1))
				}
				if during {
					nHang.Add(1)
				}
			}
		}(si, sc)
		st.label("churn:hang-up:" + c19LingerName(sc.Linger))
	}

	writersWG.Wait()
	streamsWG.Wait()

	st.requests = int(nReq.Load())
	st.hangups = int(nHang.Load())
	st.events = int(nEvents.Load())
	st.ok2xx = int(n2xx.Load())
	for l, n := range labels {
		for i := 0; i < n; i++ {
			st.labels = append(st.labels, l)
		}
	}
	st.label("churn:hang-ups-while-writers-send:" + c19Bucket(st.hangups))
	st.label("churn:events-delivered-to-streams:" + c19Bucket(st.events))
	st.label("churn:writes-answered-2xx:" + c19Bucket(st.ok2xx))
	st.nontriv = st.hangups > 0 && st.ok2xx > 0

	if firstStab != "" {
		return firstStab, firstDet, nil
	}
	// a recovery-path record that no response owned up to (e.g. an answer already begun before the panic)
	if c19Logs.count() > panicsBefore {
		p := c19Logs.last()
		return "a request of the concurrent phase went through the panic-recovery path: " + c19FirstFrame(p),
			fmt.Sprintf("%d request(s) of the concurrent phase went through the panic-recovery path; last: %s: %s", c19Logs.count()-panicsBefore, c19Logs.lastWhere(), p), nil
	}

	// ---- afterwards, alone: the server still answers, and a write still works
	var err2 error
	for _, r := range []c19Req{
		{Method: "GET", Target: "/healthz"},
		{Method: "POST", Target: "/vector/actions/add", Body: `{"index_name":"fx","id":"after-churn","vector":[0.3,0.3,0.3]}`},
		{Method: "POST", Target: "/graph/actions/link", Body: `{"index_name":"fx","source_id":"after-churn","target_id":"v0","relation_type":"rel"}`},
	} {
		var rd io.Reader
		if r.Body != "" {
			rd = strings.NewReader(r.Body)
		}
		var resp *c19Resp
		if resp, err2 = env.serve(r.Method, r.Target, rd, 0, c19HangLimit(false)); err2 != nil {
			continue
		}
		what := fmt.Sprintf("%s %s body=%s sent alone after the concurrent phase", r.Method, r.Target, r.Body)
		if resp.hung {
			return c19HungPrefix + what + ": the call did not return", c19HungPrefix + what + ": the call did not return within " + (6 * c19HangLimit(false)).String(), nil
		}
		if resp.escaped != "" {
			return what + ": a panic escaped the whole handler chain: " + resp.escaped, what + ": a panic escaped the whole handler chain: " + resp.escaped, nil
		}
		if c19Logs.count() > panicsBefore {
			return what + ": answered through the panic-recovery path: " + c19FirstFrame(c19Logs.last()), fmt.Sprintf("%s: answered through the panic-recovery path (status %d): %s", what, resp.status, c19Logs.last()), nil
		}
		if v := c19JudgeAnswer(what, resp, []byte(r.Body)); v != "" {
			return v, v, nil
		}
		st.label("churn:after:" + r.Method + " " + r.Target + ":" + c19StatusClass(resp.status))
	}

	// nothing outside the data directory was created, altered or deleted
	env.waitTasks(15 * time.Second)
	env.waitEngineIdle(15 * time.Second)
	if snap := c19SnapshotTree(env.root, env.dataDir); snap != env.fsBefore {
		v := "files outside the data directory changed (after the concurrent phase): " + c19DiffSnap(env.fsBefore, snap)
		return v, v, nil
	}
	if cw := c19SnapshotTree(c19ProcRoot, ""); cw != c19CwdSnap {
		v := "files relative to the working directory changed (after the concurrent phase): " + c19DiffSnap(c19CwdSnap, cw)
		return v, v, nil
	}
	closed = true
	if note := env.close(); note != "" {
		st.notes = append(st.notes, note)
	}
	return "", "", nil
}

// c19AwaitConfirmed waits for done with the confirmed-hang rule of serve():
// one limit, then five more before the verdict "hung".
func c19AwaitConfirmed(done <-chan struct{}, limit time.Duration) bool {
	select {
	case <-done:
		return true
	case <-time.After(limit):
	}
	select {
	case <-done:
		c19SlowCalls.Add(1)
		return true
	case <-time.After(5 * limit):
		return false
	}
}

func c19LingerName(l int) string {
	switch {
	case l < 0:
		return "when-the-writers-are-done"
	case l == 0:
		return "as-soon-as-established"
	case l == 1:
		return "after-1-event"
	}
	return "after-2..7-events"
}

// c19FirstFrame keeps "<panic value> @ <innermost frame>" of a captured
// recovery record (the deeper frames depend on which route was hit).
func c19FirstFrame(p string) string {
	if i := strings.Index(p, " <- "); i > 0 {
		return p[:i]
	}
	return p
}

// ---------------------------------------------------------------------------
// test entry point
// ---------------------------------------------------------------------------

const c19ChurnRule = "one case = one fresh real server (full middleware chain, fixture index) used by several clients at once: 1-8 clients of GET /events/stream that connect and hang up in a loop (as soon as the stream is established / after 1-7 delivered events / only when the writers are done) and 2-4 writers that each send a list of 2-6 VALID data-plane requests (link, unlink, add, add-batch, delete_vector, reinforce, evolve, set-node-properties, invalidate, KV set/delete on shared fixture nodes and on nodes of their own, or any data-plane route with a valid body) 8-96 times; bounded by counts only. Judged per request as in the sequential parts: answered, not through the panic-recovery path, well-formed, 4xx where the request alone demands it; the stream requests must return once their client hung up and must not go through the recovery path either (another status than 200 or a stream ended by the server is only counted); afterwards the server must still answer and the sandbox tree must be unchanged. NON-TRIVIAL: at least one stream client hung up while a writer was still sending and at least one writer request was answered 2xx. A case is one sample of the possible interleavings; a replay repeats its case up to 25 times"

func TestVerif_C19_churn(t *testing.T) {
	c19ProcessInit()
	col := verifkit.New("C19", "churn", c19ChurnRule)
	defer col.Finish()
	defer func() {
		col.Extra("churn_calls_slower_than_the_hang_limit_but_answered", c19SlowCalls.Load())
	}()
	col.Note("churn: the writers' requests are restricted to data-plane routes (no index create / drop / config / maintenance / compress / save / aof-rewrite: their concurrency with writers is the subject of C13 and C14); the per-request clause '4xx leaves the database unchanged' is not judged while other clients write")

	record := func(c c19ChurnCase, st *c19ChurnStats) {
		col.Case(c, st.nontriv, st.labels...)
		col.Label("churn-requests-served", st.requests)
		col.Label("churn-stream-hang-ups-while-writers-send", st.hangups)
		col.Label("churn-events-delivered", st.events)
		for _, n := range st.notes {
			col.Label("note:"+c19Trunc(n, 80), 1)
		}
	}

	if p := verifkit.ReplayPath(); p != "" {
		if verifkit.ReplayPart(p) != "churn" {
			return
		}
		var c c19ChurnCase
		if err := verifkit.LoadReplay(p, &c); err != nil {
			t.Fatal(err)
		}
		for rep := 0; rep < 25; rep++ { // one case = one sample of the interleavings
			st := &c19ChurnStats{}
			col.InFlight(c)
			_, msg, herr := c19RunChurn(c, st)
			col.Landed()
			record(c, st)
			if herr != nil {
				t.Fatalf("harness error: %v", herr)
			}
			if strings.HasPrefix(msg, c19HungPrefix) {
				c19AfterHang(col, c, msg)
			}
			if msg != "" {
				col.Fail(c, "%s", msg)
				t.Fatal(msg)
			}
		}
		return
	}

	verifkit.RapidSetup(96, 4800)
	rapid.Check(t, func(rt *rapid.T) {
		c := c19GenChurn().Draw(rt, "case")
		st := &c19ChurnStats{}
		col.InFlight(c)
		stable, msg, herr := c19RunChurn(c, st)
		col.Landed()
		record(c, st)
		if herr != nil {
			rt.Fatalf("harness error (not a violation): %v", herr)
		}
		if strings.HasPrefix(msg, c19HungPrefix) {
			c19AfterHang(col, c, msg)
		}
		if msg != "" {
			col.Fail(c, "%s", msg)
			rt.Fatalf("%s", stable)
		}
	})
}
