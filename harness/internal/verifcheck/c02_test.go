package verifcheck

// C02: a crash at any point recovers a state explained by the acknowledged history.
//
// Crash model made executable (process death: the kernel's view of the files survives, user-space
// buffers are lost): the engine is built with -tags verif and reports named step boundaries through
// internal/verifhook. At every boundary hit by a generated history the harness copies the data
// directory (sparse-aware) *in the goroutine that is executing the multi-step operation* - that copy
// is exactly what a process death at that instant leaves on disk. Torn log tails are produced by
// truncating the copied log at every byte offset of its last two frames.
//
// Oracle per image: Open succeeds; every item (KV key, index + its configuration, vector + metadata
// of every id, every edge version) has a value it held in some model state between the durable floor
// (state after the last completed Flush / Sync / SaveSnapshot / RewriteAOF / Close, or an operation
// that flushes inline) and the state after the interrupted operation; nothing that was never written
// appears; the repaired directory is a fixed point (second Open: identical read-out) and writing more
// and restarting loses nothing further.

import (
	"encoding/binary"
	"fmt"
	"os"
	"path/filepath"
	"strings"
	"sync"
	"testing"
	"time"

	"github.com/sanonone/kektordb/internal/verifkit"
	"github.com/sanonone/kektordb/pkg/engine"
	"pgregory.net/rapid"
)

type c02Image struct {
	Dir    string
	OpIdx  int    // index of the op that was executing (-1: none)
	Point  string // hook point name
	Floor  int    // durable floor: index into states
	Second bool   // taken inside the recovery of another image
	// TornFrom >= 0: at this ".journaled" point the harness forced a lazy-writer flush (as its 100 ms ticker could
	// have done at that instant); the log bytes beyond TornFrom were written by that one flush, so a crash during
	// that write may leave any prefix of them.
	TornFrom int64
}

// frame boundaries of a log file (offsets where a frame starts), and the file length
func c02FrameStarts(b []byte) []int {
	var starts []int
	off := 0
	for off+10 <= len(b) {
		if b[off] != 0xA5 {
			break
		}
		l := int(binary.LittleEndian.Uint32(b[off+2 : off+6]))
		if off+10+l > len(b) {
			break
		}
		starts = append(starts, off)
		off += 10 + l
	}
	return starts
}

type c02Stats struct {
	Images, Torn, SecondCrash int
	PostCompaction            int // images on which the post-recovery delete + compaction + restart step ran
	Points                    map[string]int
	Capped                    bool
	ExcludedCompress          int
}

// c02OpenAndCheck opens one crash image (working on a private copy), applies the oracle, and returns "" or a message.
func c02OpenAndCheck(img c02Image, states []*Model, hi int, probe map[string][]string, scratch string, seq *int, stats *c02Stats, allowSecond bool) string {
	lo := img.Floor
	*seq++
	work := filepath.Join(scratch, fmt.Sprintf("w%d", *seq))
	if err := c02CopyDir(img.Dir, work); err != nil {
		return "harness: copying image: " + err.Error()
	}
	defer os.RemoveAll(work)
	leftovers := false // the crash left temporary files of an interrupted snapshot / compaction behind
	if ents, err := os.ReadDir(work); err == nil {
		for _, en := range ents {
			if strings.HasSuffix(en.Name(), ".tmp") {
				leftovers = true
			}
		}
	}

	var second []c02Image
	if allowSecond {
		var mu sync.Mutex
		SetExtraHook(func(name string) {
			if name != "replay.scanned" && name != "replay.truncated" {
				return
			}
			mu.Lock()
			defer mu.Unlock()
			*seq++
			dir := filepath.Join(scratch, fmt.Sprintf("second%d", *seq))
			if err := c02CopyDir(work, dir); err == nil {
				second = append(second, c02Image{Dir: dir, OpIdx: img.OpIdx, Point: img.Point + "+" + name, Floor: img.Floor, Second: true, TornFrom: -1})
			}
		})
	}
	e, err := engine.Open(engineOpts(work))
	SetExtraHook(nil)
	if err != nil {
		return fmt.Sprintf("Open failed on the crash image: %v", err)
	}
	d1, derr := TakeDump(e, probe)
	if derr != nil {
		e.Close()
		return "reading the recovered engine failed: " + derr.Error()
	}
	if msg := c02Explained(d1, states, lo, hi); msg != "" {
		e.Close()
		return msg
	}
	// the engine that repaired the log goes on appending to it: what it writes must land where the next start
	// reads it (after a torn tail was cut off, behind the cut and not behind a gap)
	if err := e.KVSet("zz_repairing_engine", []byte("v")); err != nil {
		e.Close()
		return "KVSet in the engine that recovered the crash image failed: " + err.Error()
	}
	if d1, derr = TakeDump(e, probe); derr != nil {
		e.Close()
		return "reading the recovered engine after one more write failed: " + derr.Error()
	}
	if err := e.Close(); err != nil {
		return "Close of the recovered engine failed: " + err.Error()
	}
	// fixed point: opening again gives the identical read-out
	e2, err := engine.Open(engineOpts(work))
	if err != nil {
		return fmt.Sprintf("second Open of the repaired directory (after one more write by the engine that repaired it) failed: %v", err)
	}
	d2, derr := TakeDump(e2, probe)
	if derr != nil {
		e2.Close()
		return "reading the engine after the second Open failed: " + derr.Error()
	}
	if diff := DiffDumps(d1, d2); diff != "" {
		e2.Close()
		return "the repaired directory, after one more write by the engine that repaired it, is not a fixed point: second Open differs: " + diff
	}
	// writing more and restarting loses nothing further
	if err := e2.KVSet("zz_after_crash", []byte("v")); err != nil {
		e2.Close()
		return "KVSet after recovery failed: " + err.Error()
	}
	var addedIdx string
	for _, n := range uIndexes {
		if di := d2.Idx[n]; di != nil && di.Prec != "int8" {
			dim := 0
			for _, v := range di.Vecs {
				dim = len(v.Vec)
				break
			}
			if dim == 0 {
				continue
			}
			if err := e2.VAdd(n, "zz_after_crash", make([]float32, dim), map[string]any{"s": "after"}); err != nil {
				e2.Close()
				return fmt.Sprintf("VAdd into recovered index %s failed: %v", n, err)
			}
			addedIdx = n
			break
		}
	}
	p2 := map[string][]string{}
	for k, v := range probe {
		p2[k] = append(append([]string{}, v...), "zz_after_crash")
	}
	d3, derr := TakeDump(e2, p2)
	if derr != nil {
		e2.Close()
		return "reading the engine after post-recovery writes failed: " + derr.Error()
	}
	if err := e2.Close(); err != nil {
		return "Close after post-recovery writes failed: " + err.Error()
	}
	e3, err := engine.Open(engineOpts(work))
	if err != nil {
		return fmt.Sprintf("Open after post-recovery writes failed: %v", err)
	}
	d4, derr := TakeDump(e3, p2)
	if derr != nil {
		e3.Close()
		return "reading the engine after the post-recovery restart failed: " + derr.Error()
	}
	if diff := DiffDumps(d3, d4); diff != "" {
		e3.Close()
		return "after recovery, writing more (KV + vector in " + addedIdx + ") and restarting lost or changed data: " + diff
	}
	if !leftovers && (*seq)%8 != 0 {
		e3.Close()
	} else if m := func() string {
		stats.PostCompaction++
		// a log compaction in the recovered engine (it meets whatever temporary files the crash left behind)
		// followed by a restart changes nothing; a key and a vector are deleted first, so that stale content
		// that finds its way into the compacted log shows as a resurrection
		var delNote string
		for _, k := range kvKeys(d4.KV) {
			if k != "zz_after_crash" && !strings.HasPrefix(k, "_") {
				if err := e3.KVDelete(k); err != nil {
					e3.Close()
					return "KVDelete in the recovered engine failed: " + err.Error()
				}
				delNote = "key " + k
				break
			}
		}
		for _, n := range idxNames(d4) {
			if ids := d4.Idx[n].IDs; len(ids) > 1 {
				if err := e3.VDelete(n, ids[0]); err != nil {
					e3.Close()
					return fmt.Sprintf("VDelete(%s,%s) in the recovered engine failed: %v", n, ids[0], err)
				}
				delNote += " vector " + n + "/" + ids[0]
				// let the cascade finish: an interrupted one is repaired at the next start with new deletion times
				deadline := time.Now().Add(2 * time.Second)
				g := n + "::" + ids[0]
				for time.Now().Before(deadline) && (len(e3.DB.GetAllRelations(g, "in")) != 0 || len(e3.DB.GetAllRelations(g, "out")) != 0) {
					time.Sleep(time.Millisecond)
				}
				time.Sleep(2 * time.Millisecond)
				break
			}
		}
		d4, derr = TakeDump(e3, p2)
		if derr != nil {
			e3.Close()
			return "reading the recovered engine after deletes failed: " + derr.Error()
		}
		if err := e3.RewriteAOF(); err != nil {
			e3.Close()
			return "RewriteAOF in the recovered engine failed: " + err.Error()
		}
		if err := e3.Close(); err != nil {
			return "Close after the post-recovery RewriteAOF failed: " + err.Error()
		}
		e4, err := engine.Open(engineOpts(work))
		if err != nil {
			return fmt.Sprintf("Open after the post-recovery RewriteAOF failed: %v", err)
		}
		d5, derr := TakeDump(e4, p2)
		e4.Close()
		if derr != nil {
			return "reading the engine after the post-recovery RewriteAOF + restart failed: " + derr.Error()
		}
		if diff := DiffDumps(d4, d5); diff != "" {
			return "after recovery, deleting (" + delNote + "), compacting the log and restarting changed the data (leftover temporary files of the crashed run?): " + diff
		}
		return ""
	}(); m != "" {
		return m
	}
	for _, s := range second {
		stats.SecondCrash++
		msg := c02OpenAndCheck(s, states, hi, probe, scratch, seq, stats, false)
		os.RemoveAll(s.Dir)
		if msg != "" {
			return "second crash during recovery (" + s.Point + "): " + msg
		}
	}
	return ""
}

// c02Run executes a history with crash imaging at every hook point and checks every image.
func c02Run(ops []Op, seed int64, tornImages int, maxImages int, tornStride int) (msg string, stats c02Stats) {
	stats.Points = map[string]int{}
	defer func() {
		if p := recover(); p != nil {
			msg = fmt.Sprintf("panic: %v\n%s", p, trimStack(stackOf()))
		}
		SetExtraHook(nil)
	}()
	r, err := NewRunner(seed)
	if err != nil {
		return "harness: " + err.Error(), stats
	}
	defer r.Close()
	scratch, cleanup := verifkit.TempDir("c02img")
	defer cleanup()

	states := []*Model{r.M.clone()}
	floor := 0
	curOp := -1
	var images []c02Image
	var mu sync.Mutex
	imgSeq := 0
	tornBudget := tornImages
	epoch := 0
	tornInEpoch := map[int]int{}
	tornPerEpoch := 1
	if tornImages > 4 {
		tornPerEpoch = 2
	}
	SetExtraHook(func(name string) {
		mu.Lock()
		defer mu.Unlock()
		if curOp < 0 {
			return
		}
		if ops[curOp].K == KCompress && verifkit.Known("compress-crash") {
			// known finding: a crash inside VCompress (before its closing snapshot completed) can lose the index's vectors
			stats.ExcludedCompress++
			return
		}
		stats.Points[name]++
		if len(images) >= maxImages {
			stats.Capped = true
			return
		}
		var tornFrom int64 = -1
		// torn tails: at most one journal point per "epoch" (the stretch between two snapshot / rewrite / restart /
		// import / compress operations), so that logs that start with a snapshot or a compaction get torn too
		if strings.HasSuffix(name, ".journaled") && tornBudget > 0 && tornInEpoch[epoch] < tornPerEpoch {
			tornInEpoch[epoch]++
			// emulate the lazy writer's flush ticker firing right now and remember where the new bytes start
			if st, err := os.Stat(filepath.Join(r.Dir, "kektordb.aof")); err == nil {
				tornFrom = st.Size()
				_ = r.E.AOF.Flush()
				tornBudget--
			}
		}
		imgSeq++
		dir := filepath.Join(scratch, fmt.Sprintf("img%d", imgSeq))
		if err := c02CopyDir(r.Dir, dir); err != nil {
			return
		}
		images = append(images, c02Image{Dir: dir, OpIdx: curOp, Point: name, Floor: floor, TornFrom: tornFrom})
	})
	for i, op := range ops {
		mu.Lock()
		curOp = i
		mu.Unlock()
		if m := r.Step(op); m != "" {
			return fmt.Sprintf("step %d %s: live engine and reference model disagree before any crash was injected: %s", i, op.K, m), stats
		}
		states = append(states, r.M.clone())
		if opIsDurabilityPoint(op, r.LastErr) {
			mu.Lock()
			floor = len(states) - 1
			mu.Unlock()
		}
		switch op.K {
		case KSnapshot, KRewrite, KRestart, KImport, KCompress:
			mu.Lock()
			epoch++
			mu.Unlock()
		}
	}
	mu.Lock()
	curOp = -1
	mu.Unlock()
	SetExtraHook(nil)
	// one more image: the process dies right after the last op returned (nothing flushed since)
	imgSeq++
	final := filepath.Join(scratch, fmt.Sprintf("img%d", imgSeq))
	if err := c02CopyDir(r.Dir, final); err == nil {
		images = append(images, c02Image{Dir: final, OpIdx: len(ops), Point: "after-last-op", Floor: floor, TornFrom: -1})
	}
	if m := r.CheckModel(); m != "" {
		return "live engine and reference model disagree at the end of the history: " + m, stats
	}
	probe := c02Probe(states)
	seq := 0
	for k, img := range images {
		stats.Images++
		hi := img.OpIdx + 1
		if hi > len(states)-1 {
			hi = len(states) - 1
		}
		if m := c02OpenAndCheck(img, states, hi, probe, scratch, &seq, &stats, true); m != "" {
			return fmt.Sprintf("crash image #%d at hook point %q inside op %d (%s), durable floor = state %d: %s", k, img.Point, img.OpIdx, opName(ops, img.OpIdx), img.Floor, m), stats
		}
		// torn tail: any prefix of the bytes written by the flush that the harness forced at this point
		if img.TornFrom >= 0 {
			aof := filepath.Join(img.Dir, "kektordb.aof")
			b, err := os.ReadFile(aof)
			if err != nil || int64(len(b)) <= img.TornFrom {
				continue
			}
			starts := c02FrameStarts(b)
			step := 1
			if tornStride > 1 {
				step = tornStride
			}
			baseline := map[int]*Dump{}
			for x := int(img.TornFrom); x < len(b); x++ {
				// boundary(x): the largest frame start <= x (a torn frame is dropped as a whole)
				bd := 0
				inHeader := false
				for _, st := range starts {
					if st <= x {
						bd = st
					}
				}
				inHeader = x-bd <= 12
				if !inHeader && (x-bd)%step != 0 {
					continue // payload bytes are strided in the quick tier; header bytes are always enumerated
				}
				stats.Torn++
				dx, m := c02OpenTruncated(img, aof, b[:x], scratch, &seq, probe)
				if m != "" {
					return fmt.Sprintf("crash image #%d (%q in op %d %s) with the log torn at byte %d of %d (bytes from %d on were being flushed): %s", k, img.Point, img.OpIdx, opName(ops, img.OpIdx), x, len(b), img.TornFrom, m), stats
				}
				if m := c02Explained(dx, states, img.Floor, hi); m != "" {
					return fmt.Sprintf("crash image #%d (%q in op %d %s) with the log torn at byte %d of %d: %s", k, img.Point, img.OpIdx, opName(ops, img.OpIdx), x, len(b), m), stats
				}
				if baseline[bd] == nil {
					db, m := c02OpenTruncated(img, aof, b[:bd], scratch, &seq, probe)
					if m != "" {
						return fmt.Sprintf("crash image #%d with the log cut at frame boundary %d: %s", k, bd, m), stats
					}
					baseline[bd] = db
				}
				if diff := DiffDumps(c02FlattenDelTimes(baseline[bd]), c02FlattenDelTimes(dx)); diff != "" {
					return fmt.Sprintf("crash image #%d: log torn at byte %d recovers a different state than the log cut at the frame boundary %d (a torn tail must simply be dropped): %s", k, x, bd, diff), stats
				}
			}
		}
	}
	for _, img := range images {
		os.RemoveAll(img.Dir)
	}
	return "", stats
}

func c02OpenTruncated(img c02Image, aof string, content []byte, scratch string, seq *int, probe map[string][]string) (*Dump, string) {
	*seq++
	work := filepath.Join(scratch, fmt.Sprintf("t%d", *seq))
	if err := c02CopyDir(img.Dir, work); err != nil {
		return nil, "harness: " + err.Error()
	}
	defer os.RemoveAll(work)
	if err := os.WriteFile(filepath.Join(work, "kektordb.aof"), content, 0o644); err != nil {
		return nil, "harness: " + err.Error()
	}
	e, err := engine.Open(engineOpts(work))
	if err != nil {
		return nil, fmt.Sprintf("Open failed: %v", err)
	}
	d, derr := TakeDump(e, probe)
	if derr != nil {
		e.Close()
		return nil, "reading the recovered engine failed: " + derr.Error()
	}
	// the engine that cut the torn tail off goes on appending: its next write must land right behind the cut
	if err := e.KVSet("zz_repairing_engine", []byte("v")); err != nil {
		e.Close()
		return nil, "KVSet in the engine that repaired the torn log failed: " + err.Error()
	}
	dw, derr := TakeDump(e, probe)
	e.Close()
	if derr != nil {
		return nil, "reading the recovered engine after one more write failed: " + derr.Error()
	}
	// fixed point
	e2, err := engine.Open(engineOpts(work))
	if err != nil {
		return nil, fmt.Sprintf("second Open (after one more write by the engine that repaired the log) failed: %v", err)
	}
	d2, derr := TakeDump(e2, probe)
	e2.Close()
	if derr != nil {
		return nil, "reading after second Open failed: " + derr.Error()
	}
	if diff := DiffDumps(dw, d2); diff != "" {
		return nil, "not a fixed point (after one more write by the engine that repaired the log): " + diff
	}
	return d, ""
}

func opName(ops []Op, i int) string {
	if i < 0 || i >= len(ops) {
		return "-"
	}
	return ops[i].K + "/" + ops[i].Idx + "/" + ops[i].ID
}

func c02Params() GenParams {
	return GenParams{SnapEmptyPct: 30, RecreatePct: 40, MinOps: 5, MaxOps: 26, WKV: 3, WCreate: 3, WDrop: 2, WAdd: 9, WBatch: 3, WImport: 2, WDel: 5, WMeta: 4, WReinforce: 1, WEvolve: 1,
		WLink: 5, WUnlink: 3, WConfig: 1, WAutoLinks: 1, WSnapshot: 4, WRewrite: 4, WCompress: 2, WMaint: 1, WFlush: 3, WRestart: 2,
		InvalidPct: 3, AllowInt8: true, AllowMemory: false, AllowAutoLink: true, AllowText: true, SmallEfC: true, BigBatch: false, NullMeta: true, ReplacePct: 35}
}

func c02Classify(ops []Op) (labels []string, admin bool) {
	l := classify(ops)
	for _, op := range ops {
		switch op.K {
		case KSnapshot, KRewrite, KDrop, KImport, KCompress, KDel:
			admin = true
		}
	}
	return labelsOf(l), admin
}

func TestVerif_C02_crash(t *testing.T) {
	col := verifkit.New("C02", "crash",
		"rapid-generated histories of 5-26 engine ops (with Flush markers, snapshots, rewrites, drops, imports, compress, deletes) x a crash image of the data directory at EVERY verif hook point the history hits (journal/apply gaps of every mutating op; each phase boundary of SaveSnapshot, RewriteAOF, Compress, VDeleteIndex, the delete cascade, and of recovery itself during restarts) x a second crash image taken inside the recovery of each image x torn log tails: at journal points the harness forces the lazy writer to flush (as its ticker could) and then recovers from every prefix of the bytes that flush wrote (all header offsets, payload offsets strided in quick / all in thorough); per image: Open succeeds, every item's value is one it held between the durable floor and the interrupted op, one more write by the recovering engine itself, fixed point, write-more-and-restart, and (for images that hold leftover temporary files, and one in eight of the others) delete + log compaction + restart; non-trivial = the history contains a multi-step op (snapshot, rewrite, drop, import, compress, delete) so that images fall strictly inside it")
	defer col.Finish()
	torn := verifkit.Pick(4, 10)
	maxImg := verifkit.Pick(120, 400)
	if rp := verifkit.ReplayPath(); rp != "" {
		if verifkit.ReplayPart(rp) != "crash" {
			return
		}
		var ops []Op
		if err := verifkit.LoadReplay(rp, &ops); err != nil {
			t.Fatalf("replay: %v", err)
		}
		col.Case(ops, true, "replay")
		msg, _ := c02Run(ops, 1, 6, 400, 1)
		if msg != "" {
			col.Fail(ops, "%s", msg)
			t.Fatal(msg)
		}
		return
	}
	verifkit.RapidSetup(160, 800)
	totalImages, totalTorn, totalSecond, totalPost := 0, 0, 0, 0
	points := map[string]int{}
	allExhaustive := true
	rapid.Check(t, func(rt *rapid.T) {
		ops := GenHistory(c02Params()).Draw(rt, "history")
		ops = applyKnownExclusions(ops, col)
		labels, admin := c02Classify(ops)
		h := verifkit.Hash(ops)
		col.CaseH(h, ops, admin, labels...)
		col.InFlight(ops)
		msg, st := c02Run(ops, verifkit.CaseSeed(h), torn, maxImg, verifkit.Pick(9, 1))
		col.Landed()
		totalImages += st.Images
		totalTorn += st.Torn
		totalSecond += st.SecondCrash
		totalPost += st.PostCompaction
		for i := 0; i < st.ExcludedCompress; i++ {
			col.Excluded("compress-crash")
		}
		if st.Capped {
			allExhaustive = false
		}
		for k, v := range st.Points {
			points[k] += v
		}
		if msg != "" {
			col.Fail(ops, "%s", msg)
			rt.Fatalf("%s", msg)
		}
	})
	col.Extra("crash_images_checked", totalImages)
	col.Extra("torn_tail_variants_checked", totalTorn)
	col.Extra("second_crash_images_checked", totalSecond)
	col.Extra("post_recovery_compactions_checked", totalPost)
	col.Extra("hook_point_occurrences", points)
	col.SetExhaustive(allExhaustive)
	col.Note("exhaustive=true means: for every generated history, every hook-point occurrence it hit was imaged and checked (no cap hit); the space of histories itself is sampled")
}

var _ = rapid.Bool
