package server

// C19 harness, part 1: sandbox, file-system snapshot, log capture, server
// environment, engine state digest. Everything here is test infrastructure;
// nothing under /repo is touched.

import (
	"bytes"
	"context"
	"crypto/sha256"
	"encoding/hex"
	"encoding/json"
	"fmt"
	"io"
	"io/fs"
	"log"
	"log/slog"
	"math/rand"
	"net/http"
	"net/http/httptest"
	"os"
	"path/filepath"
	"reflect"
	"sort"
	"strings"
	"sync"
	"sync/atomic"
	"time"

	"github.com/sanonone/kektordb/internal/verifkit"
	"github.com/sanonone/kektordb/pkg/core"
	"github.com/sanonone/kektordb/pkg/core/distance"
	"github.com/sanonone/kektordb/pkg/core/hnsw"
	"github.com/sanonone/kektordb/pkg/embeddings"
	"github.com/sanonone/kektordb/pkg/engine"
)

// ---------------------------------------------------------------------------
// log capture: detects the recovery middleware's record
// ---------------------------------------------------------------------------

const c19PanicMarker = "Panic recovered in HTTP handler" // middleware.go: "CRITICAL: Panic recovered in HTTP handler"

type c19LogCapture struct {
	mu     sync.Mutex
	panics []string
	where  []string // "METHOD path" of the request each record belongs to (parallel to panics)
}

func (h *c19LogCapture) Enabled(_ context.Context, l slog.Level) bool { return l >= slog.LevelError }
func (h *c19LogCapture) Handle(_ context.Context, r slog.Record) error {
	if !strings.Contains(r.Message, c19PanicMarker) {
		return nil
	}
	var perr, stack, method, path string
	r.Attrs(func(a slog.Attr) bool {
		switch a.Key {
		case "error":
			perr = fmt.Sprint(a.Value.Any())
		case "stack":
			stack = a.Value.String()
		case "method":
			method = a.Value.String()
		case "path":
			path = a.Value.String()
		}
		return true
	})
	h.mu.Lock()
	h.panics = append(h.panics, perr+" @ "+c19StackTop(stack))
	h.where = append(h.where, method+" "+path)
	h.mu.Unlock()
	return nil
}
func (h *c19LogCapture) WithAttrs([]slog.Attr) slog.Handler { return h }
func (h *c19LogCapture) WithGroup(string) slog.Handler      { return h }

func (h *c19LogCapture) count() int {
	h.mu.Lock()
	defer h.mu.Unlock()
	return len(h.panics)
}

// lastWhere names the request ("METHOD path") of the latest recovery record.
func (h *c19LogCapture) lastWhere() string {
	h.mu.Lock()
	defer h.mu.Unlock()
	if len(h.where) == 0 {
		return ""
	}
	return h.where[len(h.where)-1]
}
func (h *c19LogCapture) last() string {
	h.mu.Lock()
	defer h.mu.Unlock()
	if len(h.panics) == 0 {
		return ""
	}
	return h.panics[len(h.panics)-1]
}

// c19StackTop extracts the first frames of the panicking code (kektordb or
// dependency functions below runtime.gopanic) from a debug.Stack() dump.
func c19StackTop(stack string) string {
	lines := strings.Split(stack, "\n")
	var out []string
	seenPanic := false
	for i := 0; i < len(lines); i++ {
		l := strings.TrimSpace(lines[i])
		if strings.HasPrefix(l, "panic(") || strings.HasPrefix(l, "runtime.gopanic") {
			seenPanic = true
			continue
		}
		if !seenPanic || l == "" || strings.HasPrefix(l, "/") || strings.HasPrefix(l, "runtime.") {
			continue
		}
		if i+1 < len(lines) {
			loc := strings.TrimSpace(lines[i+1])
			if j := strings.LastIndex(loc, " +0x"); j > 0 {
				loc = loc[:j]
			}
			if k := strings.Index(l, "("); k > 0 {
				l = l[:k]
			}
			out = append(out, l+" ("+filepath.Base(filepath.Dir(loc))+"/"+filepath.Base(loc)+")")
		}
		if len(out) >= 3 {
			break
		}
	}
	return strings.Join(out, " <- ")
}

var (
	c19Logs     = &c19LogCapture{}
	c19InitOnce sync.Once
	c19ProcRoot string // per-process sandbox that holds the working directory
	c19CwdSnap  string
)

// c19ProcessInit swaps the process-wide loggers and moves the working
// directory 8 levels deep into a private sandbox, so that a name used as a
// *relative* path (<= 6 ".." by construction) cannot leave that sandbox either.
func c19ProcessInit() {
	c19InitOnce.Do(func() {
		slog.SetDefault(slog.New(c19Logs))
		log.SetOutput(io.Discard)
		root, _ := verifkit.TempDir("c19cwd") // removed by the driver with VERIF_TMP; also at process end below
		c19ProcRoot = root
		deep := root
		for i := 1; i <= 8; i++ {
			deep = filepath.Join(deep, fmt.Sprintf("w%d", i))
			_ = os.MkdirAll(deep, 0o755)
			_ = os.WriteFile(filepath.Join(filepath.Dir(deep), fmt.Sprintf("cwd_decoy%d.txt", i)), []byte(fmt.Sprintf("cwd decoy %d\n", i)), 0o644)
			_ = os.MkdirAll(filepath.Join(filepath.Dir(deep), "victim"), 0o755)
			_ = os.WriteFile(filepath.Join(filepath.Dir(deep), "victim", "keep.txt"), []byte("keep\n"), 0o644)
		}
		if err := os.Chdir(deep); err != nil {
			panic(err)
		}
		c19CwdSnap = c19SnapshotTree(root, "")
	})
}

// ---------------------------------------------------------------------------
// sandbox + file-system snapshot
// ---------------------------------------------------------------------------

const c19Levels = 7 // l1..l7, then "data": the data dir is 8 levels below the sandbox root

// c19BuildSandbox populates root with decoys and returns the data dir path.
func c19BuildSandbox(root string) string {
	must := func(err error) {
		if err != nil {
			panic(fmt.Sprintf("c19 sandbox: %v", err))
		}
	}
	dir := root
	for i := 0; i <= c19Levels; i++ {
		// at every level: a decoy file and a sibling directory with content; next to
		// the data dir (where "../../x" and "../../../x" land) a few more names
		must(os.WriteFile(filepath.Join(dir, fmt.Sprintf("decoy%d.txt", i)), []byte(fmt.Sprintf("decoy at level %d\n%s", i, strings.Repeat("x", 17*i))), 0o644))
		sibs := []string{"victim"}
		if i >= c19Levels-1 {
			sibs = []string{"victim", "decoy", "a", "arenas", "fx", "x"}
		}
		for _, sib := range sibs {
			must(os.Mkdir(filepath.Join(dir, sib), 0o755))
			must(os.WriteFile(filepath.Join(dir, sib, "keep.bin"), []byte(fmt.Sprintf("%s@%d keep me", sib, i)), 0o644))
		}
		if i < c19Levels {
			dir = filepath.Join(dir, fmt.Sprintf("l%d", i+1))
			must(os.Mkdir(dir, 0o755))
		}
	}
	must(os.MkdirAll(filepath.Join(root, "abs", "victim"), 0o755))
	must(os.WriteFile(filepath.Join(root, "abs", "victim", "keep.bin"), []byte("abs keep"), 0o644))
	return filepath.Join(dir, "data")
}

// c19SnapshotTree lists names, types, sizes and content hashes of everything
// under root except the subtree skip (the data dir).
func c19SnapshotTree(root, skip string) string {
	var lines []string
	_ = filepath.WalkDir(root, func(p string, d fs.DirEntry, err error) error {
		if err != nil {
			lines = append(lines, "E "+p+" "+err.Error())
			return nil
		}
		if skip != "" && p == skip {
			return filepath.SkipDir
		}
		rel, _ := filepath.Rel(root, p)
		switch {
		case d.IsDir():
			lines = append(lines, "D "+rel)
		case d.Type()&fs.ModeSymlink != 0:
			t, _ := os.Readlink(p)
			lines = append(lines, "L "+rel+" -> "+t)
		default:
			info, _ := d.Info()
			var size int64 = -1
			if info != nil {
				size = info.Size()
			}
			sum := "-"
			if size >= 0 && size <= 1<<20 {
				if b, e := os.ReadFile(p); e == nil {
					h := sha256.Sum256(b)
					sum = hex.EncodeToString(h[:8])
				}
			} else {
				sum = "big"
			}
			lines = append(lines, fmt.Sprintf("F %s %d %s", rel, size, sum))
		}
		return nil
	})
	sort.Strings(lines)
	return strings.Join(lines, "\n")
}

// c19DiffSnap describes the difference between two snapshots (at most 8 lines).
func c19DiffSnap(before, after string) string {
	b := map[string]bool{}
	for _, l := range strings.Split(before, "\n") {
		b[l] = true
	}
	a := map[string]bool{}
	for _, l := range strings.Split(after, "\n") {
		a[l] = true
	}
	var out []string
	for l := range b {
		if !a[l] {
			out = append(out, "- "+l)
		}
	}
	for l := range a {
		if !b[l] {
			out = append(out, "+ "+l)
		}
	}
	sort.Strings(out)
	if len(out) > 8 {
		out = append(out[:8], fmt.Sprintf("... (%d more)", len(out)-8))
	}
	return strings.Join(out, "; ")
}

// ---------------------------------------------------------------------------
// server environment
// ---------------------------------------------------------------------------

type c19Env struct {
	root     string
	dataDir  string
	eng      *engine.Engine
	srv      *Server
	resolver *http.ServeMux // same registrations as the server's inner mux; used only to learn which pattern a request matches
	cleanup  func()
	fsBefore string
	opts     engine.Options
	wgUsable bool // the engine's WaitGroup counter can be read (see c19WGCounter)
}

func c19EngineOpts(dir string) engine.Options {
	o := engine.DefaultOptions(dir)
	o.AutoSaveInterval = 0
	o.AutoSaveThreshold = 0
	o.AofRewritePercentage = 0
	o.MaintenanceInterval = 1000 * time.Hour
	return o
}

// c19NewEnv builds sandbox + engine + fixture + server. seed pins the global
// math/rand used by HNSW level draws.
func c19NewEnv(seed int64) (*c19Env, error) {
	c19ProcessInit()
	root, cleanup := verifkit.TempDir("c19")
	env := &c19Env{root: root, cleanup: cleanup}
	env.dataDir = c19BuildSandbox(root)
	env.opts = c19EngineOpts(env.dataDir)
	rand.Seed(seed)
	eng, err := engine.Open(env.opts)
	if err != nil {
		cleanup()
		return nil, fmt.Errorf("engine.Open: %v", err)
	}
	env.eng = eng
	env.wgUsable = c19WGCounter(eng) == 1
	if err := c19Fixture(eng); err != nil {
		_ = eng.Close()
		cleanup()
		return nil, fmt.Errorf("fixture: %v", err)
	}
	srv, err := NewServer(eng, ":0", "", "", env.dataDir, "", embeddings.NoopEmbedder{})
	if err != nil {
		_ = eng.Close()
		cleanup()
		return nil, fmt.Errorf("NewServer: %v", err)
	}
	env.srv = srv
	env.resolver = http.NewServeMux()
	srv.registerHTTPHandlers(env.resolver)
	env.fsBefore = c19SnapshotTree(root, env.dataDir)
	return env, nil
}

// c19Fixture: index "fx" (euclidean, float32, dim 3, 4 vectors with metadata,
// 2 edges), index "fe" (cosine, empty), two KV pairs.
func c19Fixture(e *engine.Engine) error {
	if err := e.VCreate("fx", distance.Euclidean, 8, 40, distance.Float32, "english", nil, nil, nil); err != nil {
		return err
	}
	if err := e.VCreate("fe", distance.Cosine, 8, 40, distance.Float32, "", nil, nil, nil); err != nil {
		return err
	}
	vecs := [][]float32{{0.1, 0.2, 0.3}, {0.9, 0.1, 0.0}, {0.0, 1.0, 0.5}, {0.4, 0.4, 0.4}}
	for i, v := range vecs {
		meta := map[string]any{"type": "doc", "n": float64(i), "content": fmt.Sprintf("fixture text number %d about vectors", i)}
		if i == 3 { // one fixture node carries nested JSON metadata (list of objects, list of lists, object of objects)
			meta["entities"] = []any{map[string]any{"name": "alice", "refs": []any{map[string]any{"id": 1.0}}}, map[string]any{}}
			meta["grid"] = []any{[]any{1.0, 2.0}, []any{3.0}, []any{}}
			meta["nested"] = map[string]any{"a": map[string]any{"b": []any{true, nil}}}
		}
		if err := e.VAdd("fx", fmt.Sprintf("v%d", i), v, meta); err != nil {
			return err
		}
	}
	if err := e.VLink("fx", "v0", "v1", "rel", "inv", 1.0, map[string]any{"p": 1.0}); err != nil {
		return err
	}
	if err := e.VLink("fx", "v1", "v2", "rel", "", 0.5, nil); err != nil {
		return err
	}
	if err := e.KVSet("k0", []byte("zero")); err != nil {
		return err
	}
	return e.KVSet("k1", []byte("one"))
}

// reopen closes engine and server and opens both again on the same data
// directory (a restart in the middle of a request sequence).
func (env *c19Env) reopen() error {
	env.waitTasks(15 * time.Second)
	env.waitEngineIdle(15 * time.Second)
	if note := env.closeEngineOnly(); note != "" {
		return fmt.Errorf("%s", note)
	}
	eng, err := engine.Open(env.opts)
	if err != nil {
		return fmt.Errorf("engine.Open after restart: %v", err)
	}
	env.eng = eng
	env.wgUsable = c19WGCounter(eng) == 1
	srv, err := NewServer(eng, ":0", "", "", env.dataDir, "", embeddings.NoopEmbedder{})
	if err != nil {
		return fmt.Errorf("NewServer after restart: %v", err)
	}
	env.srv = srv
	env.resolver = http.NewServeMux()
	srv.registerHTTPHandlers(env.resolver)
	return nil
}

// close shuts everything down; returns a note if Close misbehaved.
func (env *c19Env) close() string { return env.closeWithin(30 * time.Second) }

// closeWithin bounds the wait for engine.Close (after a violation the engine
// may be left with a lock held by the panicking request).
func (env *c19Env) closeWithin(limit time.Duration) string {
	note := ""
	if env.srv != nil && env.srv.taskManager != nil {
		func() {
			defer func() { _ = recover() }()
			env.srv.taskManager.StopCleanup()
		}()
	}
	if env.eng != nil {
		done := make(chan error, 1)
		go func() {
			defer func() {
				if r := recover(); r != nil {
					done <- fmt.Errorf("panic in Close: %v", r)
				}
			}()
			done <- env.eng.Close()
		}()
		select {
		case err := <-done:
			if err != nil {
				note = "engine.Close: " + err.Error()
			}
		case <-time.After(limit):
			note = fmt.Sprintf("engine.Close did not return within %v", limit)
		}
		env.eng = nil
	}
	if env.cleanup != nil {
		env.cleanup()
	}
	return note
}

// waitTasks waits until no task of the server's task manager is still in
// state "started" (compress / maintenance / aof-rewrite goroutines).
func (env *c19Env) waitTasks(deadline time.Duration) bool {
	end := time.Now().Add(deadline)
	for {
		busy := false
		tm := env.srv.taskManager
		tm.mu.RLock()
		for _, t := range tm.tasks {
			snap := t.Snapshot()
			if snap.Status == TaskStatusStarted || snap.Status == TaskStatusRunning {
				busy = true
			}
		}
		tm.mu.RUnlock()
		if !busy {
			return true
		}
		if time.Now().After(end) {
			return false
		}
		time.Sleep(200 * time.Microsecond)
	}
}

// ---------------------------------------------------------------------------
// engine state digest
// ---------------------------------------------------------------------------

// c19Digest renders the observable database state as canonical text: KV
// pairs, index list with configuration and counts, every live vector with
// metadata, every graph edge version. Read errors become part of the text.
func c19Digest(e *engine.Engine) (text string, broken bool) {
	defer func() {
		if r := recover(); r != nil {
			text = fmt.Sprintf("digest panic: %v", r)
			broken = true
		}
	}()
	var sb strings.Builder
	var kv []string
	e.DB.IterateKV(func(p core.KVPair) {
		v := string(p.Value)
		if strings.HasPrefix(p.Key, "_sys_auth::") {
			h := sha256.Sum256(p.Value)
			v = "sha:" + hex.EncodeToString(h[:6])
		}
		kv = append(kv, fmt.Sprintf("kv %q=%q", p.Key, v))
	})
	sort.Strings(kv)
	sb.WriteString(strings.Join(kv, "\n"))
	sb.WriteString("\n")
	names := e.ListIndexes()
	sort.Strings(names)
	for _, name := range names {
		info, err := e.DB.GetSingleVectorIndexInfoAPI(name)
		if err != nil {
			fmt.Fprintf(&sb, "idx %q info-error %v\n", name, err)
			continue
		}
		fmt.Fprintf(&sb, "idx %q metric=%s prec=%s m=%d efc=%d lang=%q count=%d", name, info.Metric, info.Precision, info.M, info.EfConstruction, info.TextLanguage, info.VectorCount)
		idx, ok := e.DB.GetVectorIndex(name)
		h, isH := idx.(*hnsw.Index)
		if !ok || !isH {
			sb.WriteString(" (not retrievable)\n")
			continue
		}
		mb, _ := json.Marshal(h.GetMaintenanceConfig())
		ab, _ := json.Marshal(h.GetAutoLinks())
		cb, _ := json.Marshal(h.GetMemoryConfig())
		fmt.Fprintf(&sb, " dim=%d maint=%s autolinks=%s memory=%s\n", h.GetDimension(), mb, ab, cb)
		var ids []string
		var cur uint32
		for guard := 0; guard < 100000; guard++ {
			part, next, err := e.VGetIDsByCursor(name, cur, 64)
			if err != nil {
				fmt.Fprintf(&sb, "  cursor-error %v\n", err)
				break
			}
			ids = append(ids, part...)
			if next == 0 {
				break
			}
			cur = next
		}
		sort.Strings(ids)
		for _, id := range ids {
			vd, err := e.VGet(name, id)
			if err != nil {
				fmt.Fprintf(&sb, "  vec %q get-error\n", id)
				continue
			}
			meta, _ := json.Marshal(vd.Metadata) // map keys are sorted by encoding/json
			if len(vd.Vector) > 16 {
				hs := sha256.New()
				for _, f := range vd.Vector {
					fmt.Fprintf(hs, "%g,", f)
				}
				fmt.Fprintf(&sb, "  vec %q dim=%d sha=%x meta=%s\n", id, len(vd.Vector), hs.Sum(nil)[:6], meta)
			} else {
				fmt.Fprintf(&sb, "  vec %q %v meta=%s\n", id, vd.Vector, meta)
			}
		}
	}
	var edges []string
	e.DB.IterateGraphEdges(func(source, target, rel string, weight float32, props []byte, cTime, dTime int64) {
		edges = append(edges, fmt.Sprintf("edge %q -%q-> %q w=%g props=%s c=%d d=%d", source, rel, target, weight, c19CanonJSON(props), cTime, dTime))
	})
	sort.Strings(edges)
	sb.WriteString(strings.Join(edges, "\n"))
	return sb.String(), false
}

func c19CanonJSON(b []byte) string {
	if len(b) == 0 {
		return "-"
	}
	var v any
	if json.Unmarshal(b, &v) != nil {
		return fmt.Sprintf("%q", b)
	}
	out, _ := json.Marshal(v)
	return string(out)
}

// c19WGCounter reads the counter of the engine's internal WaitGroup (the
// VDelete cascade and the self-repair unlink run under it, next to the one
// permanent background loop). Reading it is only a settle condition of the
// harness: if the layout is not what is expected (validated right after Open:
// the counter must be exactly 1) the value -1 disables the mechanism.
func c19WGCounter(e *engine.Engine) (n int) {
	defer func() {
		if recover() != nil {
			n = -1
		}
	}()
	wg := reflect.ValueOf(e).Elem().FieldByName("wg")
	st := wg.FieldByName("state")
	if !st.IsValid() {
		return -1
	}
	v := st.FieldByName("v")
	if !v.IsValid() || v.Kind() != reflect.Uint64 {
		return -1
	}
	return int(v.Uint() >> 32)
}

// waitEngineIdle waits until the engine's tracked background work is done.
func (env *c19Env) waitEngineIdle(deadline time.Duration) bool {
	if !env.wgUsable {
		return true
	}
	end := time.Now().Add(deadline)
	for c19WGCounter(env.eng) != 1 {
		if time.Now().After(end) {
			return false
		}
		time.Sleep(100 * time.Microsecond)
	}
	return true
}

// settledDigest waits for async tasks and then for two consecutive equal digests.
func (env *c19Env) settledDigest() (string, bool) {
	if !env.waitTasks(15*time.Second) || !env.waitEngineIdle(15*time.Second) {
		return "tasks still running", true
	}
	d1, broken := c19Digest(env.eng)
	if broken {
		return d1, true
	}
	for i := 0; i < 40; i++ {
		time.Sleep(time.Duration(100*(i+1)) * time.Microsecond)
		d2, broken := c19Digest(env.eng)
		if broken {
			return d2, true
		}
		if d2 == d1 {
			return d1, false
		}
		d1 = d2
	}
	return "state never settled", true
}

func c19DiffDigest(a, b string) string {
	la, lb := strings.Split(a, "\n"), strings.Split(b, "\n")
	ma, mb := map[string]int{}, map[string]int{}
	for _, l := range la {
		ma[l]++
	}
	for _, l := range lb {
		mb[l]++
	}
	var out []string
	for _, l := range la {
		if ma[l] > mb[l] {
			out = append(out, "- "+c19Trunc(l, 300))
			ma[l]--
		}
	}
	for _, l := range lb {
		if mb[l] > ma[l] {
			out = append(out, "+ "+c19Trunc(l, 300))
			mb[l]--
		}
	}
	if len(out) > 8 {
		out = append(out[:8], "...")
	}
	return strings.Join(out, "; ")
}

func c19Trunc(s string, n int) string {
	if len(s) <= n {
		return s
	}
	return s[:n] + fmt.Sprintf("...(%d bytes)", len(s))
}

// ---------------------------------------------------------------------------
// serving one request through the full handler chain
// ---------------------------------------------------------------------------

// c19SlowCalls counts calls that answered only after the hang limit (reported in the evidence, never a violation).
var c19SlowCalls atomic.Int64

type c19Resp struct {
	status  int
	header  http.Header
	body    []byte
	hung    bool
	escaped string // panic that escaped the handler chain
	pattern string // mux pattern the request matched ("" = none / redirect)
}

// c19Serve runs the request through rootMux -> Recovery -> Logging -> BodyLimit -> Auth -> mux.
func (env *c19Env) serve(method, target string, body io.Reader, ctxTimeout, hangLimit time.Duration) (*c19Resp, error) {
	req, err := http.NewRequest(method, "http://c19.local"+target, body)
	if err != nil {
		return nil, err
	}
	if req.Body == nil {
		req.Body = http.NoBody
	}
	req.RequestURI = target
	req.RemoteAddr = "192.0.2.1:1234"
	req.Header.Set("Content-Type", "application/json")
	ctx := context.Background()
	var cancel context.CancelFunc
	if ctxTimeout > 0 {
		ctx, cancel = context.WithTimeout(ctx, ctxTimeout)
		defer cancel()
	}
	req = req.WithContext(ctx)
	res := &c19Resp{}
	// which pattern does the system's own routing select?
	func() {
		defer func() { _ = recover() }()
		probe := req.Clone(ctx)
		_, res.pattern = env.resolver.Handler(probe)
	}()
	rec := httptest.NewRecorder()
	done := make(chan struct{})
	go func() {
		defer close(done)
		defer func() {
			if r := recover(); r != nil {
				res.escaped = fmt.Sprint(r)
			}
		}()
		env.srv.httpServer.Handler.ServeHTTP(rec, req)
	}()
	select {
	case <-done:
	case <-time.After(hangLimit):
		// No answer within the limit. A hung call never answers; a call that is merely starved of CPU
		// (the machine may be heavily loaded) does. Wait five more limits before calling it hung, so
		// that slowness alone can never be reported as a violation.
		select {
		case <-done:
			c19SlowCalls.Add(1)
		case <-time.After(5 * hangLimit):
			res.hung = true
			return res, nil
		}
	}
	res.status = rec.Code
	res.header = rec.Header()
	res.body = rec.Body.Bytes()
	return res, nil
}

// c19OneJSON reports whether b is exactly one JSON value (surrounding whitespace allowed).
func c19OneJSON(b []byte) bool {
	return json.Valid(bytes.TrimSpace(b))
}
