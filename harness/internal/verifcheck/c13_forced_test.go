package verifcheck

// C13, part "forced": a parallel batch insert is parked right after it reserved its ids (hook point
// hnsw.addbatch.ids_reserved) while other clients delete vectors of the same index - including every
// live one, which empties the graph under the batch - add new ones, vacuum, snapshot or drop the
// index; then the batch is released. Nothing may panic, every call returns, and the batch items
// (when the batch was acknowledged) are readable, searchable and survive a restart.

import (
	"fmt"
	"path/filepath"
	"sync/atomic"
	"testing"
	"time"

	"github.com/sanonone/kektordb/internal/verifkit"
	"github.com/sanonone/kektordb/pkg/core/distance"
	"github.com/sanonone/kektordb/pkg/core/hnsw"
	"github.com/sanonone/kektordb/pkg/core/types"
	"github.com/sanonone/kektordb/pkg/engine"
	"pgregory.net/rapid"
)

type c13Forced struct {
	Warm      int      `json:"warm"`      // vectors added one by one before the batch (>= efConstruction 8, so the batch takes the parallel path)
	Live      int      `json:"live"`      // how many of them are still live when the batch starts
	Batch     int      `json:"batch"`     // batch size
	Meanwhile []string `json:"meanwhile"` // what the other client does while the batch is parked: delall del1 add vacuum refine snapshot search
	Metric    string   `json:"metric"`
	Restart   bool     `json:"restart"`
}

func c13ForcedRun(c c13Forced) (msg string) {
	dir, cleanup := verifkit.TempDir("c13f")
	defer cleanup()
	data := filepath.Join(dir, "data")
	e, err := engine.Open(engineOpts(data))
	if err != nil {
		return "harness: " + err.Error()
	}
	var closed atomic.Bool
	var hung atomic.Value
	release := make(chan struct{})
	var released atomic.Bool
	defer func() {
		if released.CompareAndSwap(false, true) {
			close(release)
		}
		SetExtraHook(nil)
		if !closed.Load() && hung.Load() == nil {
			c13Call("Close (end of case)", func() error { return e.Close() }, &hung)
		}
	}()
	maint := hnsw.DefaultMaintenanceConfig()
	maint.ArenaCompaction.Enabled = false
	metric := distance.Euclidean
	if c.Metric == "cosine" {
		metric = distance.Cosine
	}
	if err := e.VCreate("f", metric, 4, 8, distance.Float32, "", &maint, nil, nil); err != nil {
		return "harness: " + err.Error()
	}
	for i := 0; i < c.Warm; i++ {
		if err := e.VAdd("f", fmt.Sprintf("w%d", i), []float32{float32(i + 1), 1, float32(i % 3)}, map[string]any{"n": float64(i)}); err != nil {
			return "harness: " + err.Error()
		}
	}
	for i := c.Live; i < c.Warm; i++ {
		if err := e.VDelete("f", fmt.Sprintf("w%d", i)); err != nil {
			return "harness: " + err.Error()
		}
	}
	parked := make(chan struct{}, 1)
	SetExtraHook(func(name string) {
		if name != "hnsw.addbatch.ids_reserved" || released.Load() {
			return
		}
		select {
		case parked <- struct{}{}:
		default:
			return // only the first batch is parked
		}
		<-release
	})
	items := make([]types.BatchObject, c.Batch)
	for i := range items {
		items[i] = types.BatchObject{Id: fmt.Sprintf("b%d", i), Vector: []float32{float32(i) + 0.5, 2, 1}, Metadata: map[string]any{"n": float64(100 + i)}}
	}
	batchDone := make(chan error, 1)
	go func() {
		defer func() {
			if p := recover(); p != nil {
				batchDone <- fmt.Errorf("PANIC in VAddBatch: %v", p)
			}
		}()
		batchDone <- e.VAddBatch("f", items)
	}()
	select {
	case <-parked:
	case err := <-batchDone:
		return fmt.Sprintf("harness: the batch did not take the parallel path (returned %v before the hook point)", err)
	case <-time.After(2 * time.Minute):
		return "the batch did not reach its hook point within 2 min"
	}
	liveWarm := map[string]bool{}
	for i := 0; i < c.Live; i++ {
		liveWarm[fmt.Sprintf("w%d", i)] = true
	}
	extra := 0
	for _, m := range c.Meanwhile {
		var cerr error
		var ok bool
		switch m {
		case "delall":
			for id := range liveWarm {
				id := id
				cerr, ok = c13Call("VDelete("+id+") while the batch is parked", func() error { return e.VDelete("f", id) }, &hung)
				if !ok {
					return hung.Load().(string)
				}
				if cerr != nil {
					return fmt.Sprintf("VDelete(%s) of a live vector failed while the batch was parked: %v", id, cerr)
				}
				delete(liveWarm, id)
			}
		case "del1":
			for id := range liveWarm {
				id := id
				cerr, ok = c13Call("VDelete", func() error { return e.VDelete("f", id) }, &hung)
				if !ok {
					return hung.Load().(string)
				}
				if cerr == nil {
					delete(liveWarm, id)
				}
				break
			}
		case "add":
			id := fmt.Sprintf("x%d", extra)
			extra++
			cerr, ok = c13Call("VAdd", func() error { return e.VAdd("f", id, []float32{9, 9, float32(extra)}, nil) }, &hung)
			if !ok {
				return hung.Load().(string)
			}
			if cerr == nil {
				liveWarm[id] = true
			}
		case "vacuum", "refine":
			task := m
			_, ok = c13Call("maintenance "+task, func() error { e.VTriggerMaintenance("f", task); return nil }, &hung)
			if !ok {
				return hung.Load().(string)
			}
		case "search":
			_, ok = c13Call("VSearch", func() error { _, err := e.VSearch("f", []float32{1, 1, 1}, 5, "", "", 0, 1, nil); return err }, &hung)
			if !ok {
				return hung.Load().(string)
			}
		}
		if cerr != nil && len(cerr.Error()) >= 5 && cerr.Error()[:5] == "PANIC" {
			return cerr.Error()
		}
	}
	released.Store(true)
	close(release)
	var berr error
	select {
	case berr = <-batchDone:
	case <-time.After(2 * time.Minute):
		return "VAddBatch did not return within 2 min after it was released"
	}
	SetExtraHook(nil)
	if berr != nil {
		if len(berr.Error()) >= 5 && berr.Error()[:5] == "PANIC" {
			return berr.Error()
		}
		return fmt.Sprintf("a valid VAddBatch was rejected: %v", berr)
	}
	verify := func(e *engine.Engine, when string) string {
		want := map[string]bool{}
		for id := range liveWarm {
			want[id] = true
		}
		for _, it := range items {
			want[it.Id] = true
		}
		for id := range want {
			if _, err := e.VGet("f", id); err != nil {
				return fmt.Sprintf("%s: %s was acknowledged and never deleted but is not readable: %v", when, id, err)
			}
		}
		for i := c.Live; i < c.Warm; i++ {
			id := fmt.Sprintf("w%d", i)
			if _, err := e.VGet("f", id); err == nil {
				return fmt.Sprintf("%s: deleted %s is readable", when, id)
			}
		}
		res, err := e.VSearch("f", []float32{1, 2, 1}, len(want)+5, "", "", 200, 1, nil)
		if err != nil {
			return fmt.Sprintf("%s: VSearch failed: %v", when, err)
		}
		seen := map[string]bool{}
		for _, id := range res {
			if !want[id] {
				return fmt.Sprintf("%s: VSearch returned %q which is not a live vector (live: %v)", when, id, sortedKeys(want))
			}
			if seen[id] {
				return fmt.Sprintf("%s: VSearch returned %q twice", when, id)
			}
			seen[id] = true
		}
		return ""
	}
	if m := verify(e, "live, after the batch returned"); m != "" {
		return m
	}
	if c.Restart {
		if _, ok := c13Call("Close", func() error { return e.Close() }, &hung); !ok {
			return hung.Load().(string)
		}
		closed.Store(true)
		e2, err := engine.Open(engineOpts(data))
		if err != nil {
			return "Open after the case: " + err.Error()
		}
		defer e2.Close()
		if m := verify(e2, "after Close/Open"); m != "" {
			return m
		}
	}
	return ""
}

func sortedKeys(m map[string]bool) []string {
	var out []string
	for k := range m {
		out = append(out, k)
	}
	return sortedCopy(out)
}

func TestVerif_C13_forced(t *testing.T) {
	col := verifkit.New("C13", "forced",
		"rapid-generated forced schedules: an index with efConstruction 8 is warmed with 8-12 vectors of which 0-3 stay live, a batch of 2-12 items is parked right after it reserved its ids (parallel insert path), meanwhile another client runs a generated list of operations on the same index (delete every live vector, delete one, add, vacuum, refine, search), then the batch is released; oracle = no panic, every call returns (2 min hang rule), a valid batch is accepted, every acknowledged and undeleted vector is readable live and after Close/Open, deleted ones are not, search returns only live ids without duplicates; non-trivial = the graph is emptied (all live vectors deleted) or a vacuum runs while the batch is parked")
	defer col.Finish()
	if rp := verifkit.ReplayPath(); rp != "" {
		if verifkit.ReplayPart(rp) != "forced" {
			return
		}
		var c c13Forced
		if err := verifkit.LoadReplay(rp, &c); err != nil {
			t.Fatal(err)
		}
		col.Case(c, true, "replay")
		col.InFlight(c)
		msg := c13ForcedRun(c)
		col.Landed()
		if msg != "" {
			col.Fail(c, "%s", msg)
			t.Fatal(msg)
		}
		return
	}
	verifkit.RapidSetup(200, 6000)
	rapid.Check(t, func(rt *rapid.T) {
		c := c13Forced{
			Warm:    rapid.IntRange(8, 12).Draw(rt, "warm"),
			Live:    rapid.IntRange(0, 3).Draw(rt, "live"),
			Batch:   rapid.IntRange(2, 12).Draw(rt, "batch"),
			Metric:  rapid.SampledFrom([]string{"euclidean", "cosine"}).Draw(rt, "metric"),
			Restart: rapid.Bool().Draw(rt, "restart"),
		}
		c.Meanwhile = rapid.SliceOfN(rapid.SampledFrom([]string{"delall", "delall", "del1", "add", "vacuum", "refine", "search"}), 0, 5).Draw(rt, "meanwhile")
		nt := false
		labels := []string{fmt.Sprintf("live=%d", c.Live)}
		for _, m := range c.Meanwhile {
			if m == "delall" || m == "vacuum" {
				nt = true
			}
			labels = append(labels, "meanwhile:"+m)
		}
		col.Case(c, nt, uniq(labels)...)
		col.InFlight(c)
		msg := c13ForcedRun(c)
		col.Landed()
		if msg != "" {
			if len(msg) >= 8 && msg[:8] == "harness:" {
				col.Note(msg)
				rt.Skip(msg)
			}
			col.Fail(c, "%s", msg)
			rt.Fatalf("%s", trimTo(msg, 1500))
		}
	})
}
