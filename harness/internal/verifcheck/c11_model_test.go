package verifcheck

// C11 — "Graph queries compute exact bounded reachability and shortest paths".
//
// This file: the pure-data case, the reference model of the edge store (edge
// versions with created/deleted instants) and the reference BFS. Nothing here
// touches the engine.

import (
	"fmt"
	"sort"
	"strings"
)

const c11MaxNodes = 7

// c11Op is one graph-building operation.
type c11Op struct {
	Kind string `json:"kind"`           // "link" | "unlink" | "gvacuum" (graph vacuum: every closed version is reclaimed, active ones stay)
	Src  int    `json:"src"`            // node index
	Dst  int    `json:"dst"`            // node index
	Rel  string `json:"rel"`            // relation name
	Inv  string `json:"inv,omitempty"`  // inverse relation ("" = none)
	W    int    `json:"w,omitempty"`    // link: edge weight (1 or 2); a link of an active edge with another weight makes a new version
	Hard bool   `json:"hard,omitempty"` // unlink: physical removal (erases the history of that edge)
}

// c11Time names the instant a time-travel query asks about, relative to the ops.
//
//	now  : atTime 0
//	mid  : an instant sampled by the harness after op Op returned (Op = -1: before the first op)
//	at   : exactly the timestamp the engine recorded for op Op (mid if the op changed nothing)
//	pre  : at - 1 ns        post : at + 1 ns
type c11Time struct {
	Kind string `json:"kind"`
	Op   int    `json:"op,omitempty"`
}

// c11Query is one query.
type c11Query struct {
	API   string   `json:"api"` // "path" | "sub" | "search" | "trav"
	Src   int      `json:"src"` // source / root / start
	Dst   int      `json:"dst,omitempty"`
	Rels  []string `json:"rels,omitempty"`
	Depth int      `json:"depth,omitempty"`
	Dir   string   `json:"dir,omitempty"`   // search only: "", "out", "in", "both"
	T     c11Time  `json:"t"`               // path / sub only (search and trav read the current graph)
	Paths []string `json:"paths,omitempty"` // trav only: dot-separated relation paths
}

// c11Case is one generated case: a graph history and the queries asked after it.
type c11Case struct {
	N       int        `json:"n"`   // nodes n0..n(N-1)
	Vec     []int      `json:"vec"` // per node: 0 = never gets a vector, 1 = vector added before the ops, 2 = after the ops
	Ops     []c11Op    `json:"ops"`
	Queries []c11Query `json:"queries"`
	// Tail: what happens between building the graph and asking: "" (nothing), "restart", "rewrite" (log
	// compaction), "rewrite+restart", "snapshot+restart". The answers must not depend on it.
	Tail string `json:"tail,omitempty"`
}

func c11Node(i int) string { return fmt.Sprintf("n%d", i) }

// ---------------------------------------------------------------- edge model

// c11Ver is one version of a directed edge. D == 0: still active.
type c11Ver struct {
	S, T int
	Rel  string
	W    int
	C, D int64
}

const c11Pending = int64(-1) // placeholder until the engine's timestamp has been read back

type c11Effect struct {
	Created []c11Ver // versions created by the op (C pending)
	Soft    []c11Ver // versions soft-deleted by the op (D pending), as they were before
	Hard    int      // versions physically removed
}

type c11Model struct {
	vers []c11Ver
	// history flags
	sawSoft, sawHard, sawEvolve, sawInverse, sawRelink, sawVacuum, sawInvUnlink bool
}

func (m *c11Model) addEdge(s, t int, rel string, w int, eff *c11Effect) {
	act := -1
	hadOld := false
	for i := range m.vers {
		v := &m.vers[i]
		if v.S == s && v.T == t && v.Rel == rel {
			if v.D == 0 {
				act = i
				break
			}
			hadOld = true
		}
	}
	if act >= 0 {
		if m.vers[act].W == w {
			return // identical active edge: documented no-op
		}
		eff.Soft = append(eff.Soft, m.vers[act])
		m.vers[act].D = c11Pending
		m.sawEvolve = true
		m.sawSoft = true
	} else if hadOld {
		m.sawRelink = true
	}
	nv := c11Ver{S: s, T: t, Rel: rel, W: w, C: c11Pending}
	m.vers = append(m.vers, nv)
	eff.Created = append(eff.Created, nv)
}

func (m *c11Model) removeEdge(s, t int, rel string, hard bool, eff *c11Effect) {
	if hard {
		out := m.vers[:0]
		for _, v := range m.vers {
			if v.S == s && v.T == t && v.Rel == rel {
				eff.Hard++
				continue
			}
			out = append(out, v)
		}
		m.vers = out
		if eff.Hard > 0 {
			m.sawHard = true
		}
		return
	}
	for i := range m.vers {
		v := &m.vers[i]
		if v.S == s && v.T == t && v.Rel == rel && v.D == 0 {
			eff.Soft = append(eff.Soft, *v)
			v.D = c11Pending
			m.sawSoft = true
			return
		}
	}
}

// apply performs op with pending timestamps and says what changed.
func (m *c11Model) apply(op c11Op) c11Effect {
	var eff c11Effect
	switch op.Kind {
	case "link":
		m.addEdge(op.Src, op.Dst, op.Rel, op.W, &eff)
		if op.Inv != "" {
			m.sawInverse = true
			m.addEdge(op.Dst, op.Src, op.Inv, op.W, &eff)
		}
	case "unlink":
		m.removeEdge(op.Src, op.Dst, op.Rel, op.Hard, &eff)
		if op.Inv != "" {
			m.sawInvUnlink = true
			m.removeEdge(op.Dst, op.Src, op.Inv, op.Hard, &eff)
		}
	case "gvacuum":
		kept := m.vers[:0]
		for _, v := range m.vers {
			if v.D != 0 {
				eff.Hard++
				continue
			}
			kept = append(kept, v)
		}
		m.vers = kept
		m.sawVacuum = true
	}
	return eff
}

// stamp replaces the pending placeholders by the timestamp of the op.
func (m *c11Model) stamp(ts int64) {
	for i := range m.vers {
		if m.vers[i].C == c11Pending {
			m.vers[i].C = ts
		}
		if m.vers[i].D == c11Pending {
			m.vers[i].D = ts
		}
	}
}

func (e c11Effect) changed() bool { return len(e.Created) > 0 || len(e.Soft) > 0 }

// c11ActiveAt is the documented visibility rule: atTime 0 = not deleted; else
// created <= T and (not deleted or deleted after T).
func c11ActiveAt(v c11Ver, T int64) bool {
	if T == 0 {
		return v.D == 0
	}
	return v.C <= T && (v.D == 0 || v.D > T)
}

func (m *c11Model) dump() []string {
	out := make([]string, 0, len(m.vers))
	for _, v := range m.vers {
		out = append(out, fmt.Sprintf("%s-[%s w%d]->%s c=%d d=%d", c11Node(v.S), v.Rel, v.W, c11Node(v.T), v.C, v.D))
	}
	sort.Strings(out)
	return out
}

// ---------------------------------------------------------------- reference graph at (T, relations)

type c11Adj struct {
	n   int
	out [c11MaxNodes][c11MaxNodes]bool // out[a][b]: an active edge a->b of an allowed relation
}

func c11RelSet(rels []string) map[string]bool {
	s := map[string]bool{}
	for _, r := range rels {
		s[r] = true
	}
	return s
}

func (m *c11Model) adj(n int, T int64, rels []string) *c11Adj {
	a := &c11Adj{n: n}
	rs := c11RelSet(rels)
	for _, v := range m.vers {
		if rs[v.Rel] && c11ActiveAt(v, T) {
			a.out[v.S][v.T] = true
		}
	}
	return a
}

// hasEdgeRel: is there an active edge s->t with exactly this relation at T?
func (m *c11Model) hasEdgeRel(s, t int, rel string, T int64) bool {
	for _, v := range m.vers {
		if v.S == s && v.T == t && v.Rel == rel && c11ActiveAt(v, T) {
			return true
		}
	}
	return false
}

const c11Inf = 1 << 30

// dist: BFS hop distances from src. dir: "out" follows edges forwards, "in"
// backwards, "both" either way.
func (a *c11Adj) dist(src int, dir string) [c11MaxNodes]int {
	var d [c11MaxNodes]int
	for i := range d {
		d[i] = c11Inf
	}
	if src < 0 || src >= a.n {
		return d
	}
	d[src] = 0
	q := []int{src}
	for len(q) > 0 {
		x := q[0]
		q = q[1:]
		for y := 0; y < a.n; y++ {
			ok := false
			if (dir == "out" || dir == "both") && a.out[x][y] {
				ok = true
			}
			if (dir == "in" || dir == "both") && a.out[y][x] {
				ok = true
			}
			if ok && d[y] == c11Inf {
				d[y] = d[x] + 1
				q = append(q, y)
			}
		}
	}
	return d
}

// reach: nodes within depth hops of root (root included).
func (a *c11Adj) reach(root int, dir string, depth int) []int {
	d := a.dist(root, dir)
	var out []int
	for i := 0; i < a.n; i++ {
		if d[i] <= depth {
			out = append(out, i)
		}
	}
	return out
}

// hasCycle: a directed cycle (a self-loop counts).
func (a *c11Adj) hasCycle() bool {
	for s := 0; s < a.n; s++ {
		if a.out[s][s] {
			return true
		}
		// can s reach itself through at least one edge?
		seen := [c11MaxNodes]bool{}
		st := []int{}
		for y := 0; y < a.n; y++ {
			if a.out[s][y] && !seen[y] {
				seen[y] = true
				st = append(st, y)
			}
		}
		for len(st) > 0 {
			x := st[len(st)-1]
			st = st[:len(st)-1]
			if x == s {
				return true
			}
			for y := 0; y < a.n; y++ {
				if a.out[x][y] && !seen[y] {
					seen[y] = true
					st = append(st, y)
				}
			}
		}
	}
	return false
}

// longestSimple: the length of the longest simple directed path s -> t (-1: none).
func (a *c11Adj) longestSimple(s, t int) int {
	best := -1
	var used [c11MaxNodes]bool
	var rec func(x, l int)
	rec = func(x, l int) {
		if x == t {
			if l > best {
				best = l
			}
			return
		}
		for y := 0; y < a.n; y++ {
			if a.out[x][y] && !used[y] {
				used[y] = true
				rec(y, l+1)
				used[y] = false
			}
		}
	}
	used[s] = true
	rec(s, 0)
	return best
}

// ---------------------------------------------------------------- instants

type c11Clock struct {
	opTs []int64 // timestamp the engine recorded for op i (0: the op changed nothing)
	mid  []int64 // mid[i+1]: harness sample after op i; mid[0]: before the first op
}

func (k *c11Clock) resolve(t c11Time) int64 {
	if t.Kind == "now" || t.Kind == "" {
		return 0
	}
	i := t.Op
	if i >= len(k.opTs) {
		i = len(k.opTs) - 1
	}
	if i < -1 {
		i = -1
	}
	m := k.mid[i+1]
	at := m
	if i >= 0 && k.opTs[i] != 0 {
		at = k.opTs[i]
	}
	switch t.Kind {
	case "mid":
		return m
	case "at":
		return at
	case "pre":
		return at - 1
	case "post":
		return at + 1
	}
	return 0
}

// c11LogicalModel interprets the ops with a logical clock (op i happens at
// 100*(i+1), the sample after it at 100*(i+1)+50). It classifies a case without
// an engine; the run uses the same model code with the engine's own timestamps.
func c11LogicalModel(c c11Case) (*c11Model, *c11Clock) {
	m := &c11Model{}
	k := &c11Clock{opTs: make([]int64, len(c.Ops)), mid: make([]int64, len(c.Ops)+1)}
	k.mid[0] = 50
	for i, op := range c.Ops {
		ts := int64(100 * (i + 1))
		eff := m.apply(op)
		m.stamp(ts)
		if eff.changed() {
			k.opTs[i] = ts
		}
		k.mid[i+1] = ts + 50
	}
	return m, k
}

// ---------------------------------------------------------------- classification

func c11PathDepth(d int) int {
	if d <= 0 {
		return 4 // documented default
	}
	return d
}

func c11Clamp5(d int) int {
	if d > 5 {
		return 5
	}
	return d
}

// c11TravSize: number of nodes of the traversal tree VTraverse would build for
// one dot path (upper bound: counts nodes without vectors too).
func c11TravSize(a func(rel string) *c11Adj, start int, segs []string, cap int) (size int, levels int) {
	cnt := map[int]int{start: 1}
	total := 0
	for li, rel := range segs {
		g := a(rel)
		next := map[int]int{}
		for x, c := range cnt {
			for y := 0; y < g.n; y++ {
				if g.out[x][y] {
					next[y] += c
					if next[y] > cap {
						return cap + 1, li
					}
				}
			}
		}
		for _, c := range next {
			total += c
		}
		if total > cap {
			return cap + 1, li
		}
		cnt = next
		if len(cnt) == 0 {
			break
		}
		levels = li + 1
	}
	return total, levels
}

const c11TravCap = 4000

// c11Classify evaluates the non-trivial rule and the class labels of a case on
// the logical model: non-trivial = some FindPath query has a shortest path of
// >= 2 hops and the queried graph has a longer alternative path or a cycle.
func c11Classify(c c11Case) (bool, []string) {
	m, k := c11LogicalModel(c)
	lab := map[string]bool{}
	nt := false

	allRels := map[string]bool{}
	for _, v := range m.vers {
		allRels[v.Rel] = true
	}
	var relList []string
	for r := range allRels {
		relList = append(relList, r)
	}
	sort.Strings(relList)
	now := m.adj(c.N, 0, relList)
	if now.hasCycle() {
		lab["g:cycle-now"] = true
	}
	for i := 0; i < c.N; i++ {
		if now.out[i][i] {
			lab["g:self-loop-now"] = true
		}
	}
	// parallel relations: same ordered pair linked by two different active relations
	par := map[[2]int]string{}
	for _, v := range m.vers {
		if v.D == 0 {
			key := [2]int{v.S, v.T}
			if r, ok := par[key]; ok && r != v.Rel {
				lab["g:parallel-relations"] = true
			}
			par[key] = v.Rel
		}
	}
	maxd := 0
	for s := 0; s < c.N; s++ {
		d := now.dist(s, "out")
		for t := 0; t < c.N; t++ {
			if d[t] != c11Inf && d[t] > maxd {
				maxd = d[t]
			}
		}
	}
	if maxd >= 5 {
		lab["g:directed-dist>=5"] = true
	}
	if m.sawSoft {
		lab["g:soft-deleted-version"] = true
	}
	if m.sawHard {
		lab["g:hard-deleted"] = true
	}
	if m.sawEvolve {
		lab["g:weight-evolved"] = true
	}
	if m.sawInverse {
		lab["g:inverse-link"] = true
	}
	if m.sawRelink {
		lab["g:relinked-after-delete"] = true
	}
	if m.sawInvUnlink {
		lab["g:unlink-naming-an-inverse-relation"] = true
	}
	if m.sawVacuum {
		lab["g:graph-vacuum-of-closed-versions"] = true
	}
	for _, v := range c.Vec {
		if v == 0 {
			lab["g:node-without-vector"] = true
		}
	}

	for _, q := range c.Queries {
		switch q.API {
		case "path":
			if len(q.Rels) == 0 {
				lab["path:no-relations"] = true
				continue
			}
			T := k.resolve(q.T)
			a := m.adj(c.N, T, q.Rels)
			d := a.dist(q.Src, "out")[q.Dst]
			D := c11PathDepth(q.Depth)
			switch {
			case d == c11Inf:
				lab["path:unreachable"] = true
			case d == 0:
				lab["path:dist=0"] = true
			case d == 1:
				lab["path:dist=1"] = true
			case d%2 == 0:
				lab["path:dist-even>=2"] = true
			default:
				lab["path:dist-odd>=3"] = true
			}
			if d != c11Inf && d > D {
				lab["path:shortest-beyond-depth"] = true
			}
			if d != c11Inf && d == D {
				lab["path:shortest==depth"] = true
			}
			if T != 0 {
				lab["path:time-travel"] = true
				if q.T.Kind != "mid" {
					lab["path:at-op-boundary"] = true
				}
				if dn := m.adj(c.N, 0, q.Rels).dist(q.Src, "out")[q.Dst]; dn != d {
					lab["path:answer-differs-from-now"] = true
				}
			}
			if d != c11Inf && d >= 2 {
				cyc := a.hasCycle()
				alt := a.longestSimple(q.Src, q.Dst) > d
				if cyc {
					lab["path:dist>=2+cycle"] = true
				}
				if alt {
					lab["path:dist>=2+longer-alternative"] = true
				}
				if cyc || alt {
					nt = true
				}
			}
		case "sub":
			T := k.resolve(q.T)
			a := m.adj(c.N, T, q.Rels)
			if q.Depth > 5 {
				lab["sub:depth>5"] = true
				if len(a.reach(q.Src, "both", q.Depth)) > len(a.reach(q.Src, "both", 5)) {
					lab["sub:clamp-cuts-nodes"] = true
				}
			}
			if T != 0 {
				lab["sub:time-travel"] = true
			}
			if q.Depth >= 5 && len(a.reach(q.Src, "both", 5)) > len(a.reach(q.Src, "both", 4)) {
				lab["sub:node-at-depth-5"] = true
			}
			r := a.reach(q.Src, "both", c11Clamp5(q.Depth))
			if len(r) < len(a.reach(q.Src, "both", c11Inf-1)) {
				lab["sub:depth-cuts-nodes"] = true
			}
			if len(r) > 1 && a.hasCycle() {
				lab["sub:cyclic"] = true
			}
		case "search":
			dir := q.Dir
			if dir == "" {
				dir = "out"
			}
			lab["search:dir="+dir] = true
			a := m.adj(c.N, 0, q.Rels)
			if q.Depth > 5 {
				lab["search:depth>5"] = true
				if len(a.reach(q.Src, dir, q.Depth)) > len(a.reach(q.Src, dir, 5)) {
					lab["search:clamp-cuts-nodes"] = true
				}
			}
			if q.Depth >= 5 && len(a.reach(q.Src, dir, 5)) > len(a.reach(q.Src, dir, 4)) {
				lab["search:node-at-depth-5"] = true
			}
			r := a.reach(q.Src, dir, c11Clamp5(q.Depth))
			if len(r) < len(a.reach(q.Src, dir, c11Inf-1)) {
				lab["search:depth-cuts-nodes"] = true
			}
			for _, x := range r {
				if c.Vec[x] == 0 {
					lab["search:reaches-vectorless-node"] = true
				}
			}
			if len(r) > 1 && a.hasCycle() {
				lab["search:cyclic"] = true
			}
		case "trav":
			for _, p := range q.Paths {
				segs := strings.Split(p, ".")
				if len(segs) > 10 {
					lab["trav:path>10"] = true
				}
				sz, lv := c11TravSize(func(rel string) *c11Adj { return m.adj(c.N, 0, []string{rel}) }, q.Src, segs, c11TravCap)
				if sz > c11TravCap {
					lab["trav:skipped-too-big"] = true
				} else {
					if lv >= c.N {
						lab["trav:walk-revisits-a-node"] = true // more hops than nodes: pigeonhole
					}
					if lv > 10 {
						lab["trav:walk-deeper-than-10"] = true
					}
				}
			}
		}
	}
	if nt {
		lab["NT"] = true
	}
	out := make([]string, 0, len(lab))
	for l := range lab {
		out = append(out, l)
	}
	sort.Strings(out)
	return nt, out
}
