package verifcheck

import (
	"fmt"
	"math"
	"os"
	"regexp"
	"runtime"
	"runtime/debug"
	"runtime/pprof"
	"sort"
	"strconv"
	"strings"
	"testing"
	"time"

	"github.com/sanonone/kektordb/internal/verifkit"
	"github.com/sanonone/kektordb/pkg/engine"
	"pgregory.net/rapid"
)

const c06Rule = "rapid-generated cases = shared-model history of 8-45 engine ops (adds, batches below/above the parallel-path threshold, import, deletes, re-adds of deleted ids, metadata merges, reinforce, evolve, links/unlinks, auto-links, vacuum/refine, compress, snapshot, rewrite, restart, drop/re-create; 3 indexes x 8 ids, all metric x precision configs, text language and memory config on/off) + 3-12 QUERY steps (60% placed right after a delete / maintenance / compress / restart / batch / unlink): query vector (grid | exact copy of a stored vector | copy + offset | zero | none), k in 1..live+3, efSearch in {0,1,k,200}, optional filter of the documented grammar (OR of AND blocks of key op literal over the universe's keys), optional graph scope (root, 0-2 relations, direction ''/out/in/both, depth -1,0,1,2,3,7), optional text query (explicit parameter or CONTAINS clause) with alpha in {0,.3,.5,1,-1,2}. Every query is sent to VSearch, VSearchGraph, VSearchWithScores and VFilter; each answer must pass the validity predicate (live in the model and readable with VGet, no duplicates, <= k, scores non-increasing, model metadata can satisfy the filter, id inside the reference BFS scope, score inside the interval recomputed in float64 from the query and the VGet vector, times the bracketed decay factor). NON-TRIVIAL = at some query the queried index holds >= 1 deleted (possibly vacuumed) id, or the filter or the scope excludes >= 1 live id."

var c06EvolvedRe = regexp.MustCompile(`evolved_(\w+?)_\d{12,}`)

type c06Stats struct {
	L          map[string]int
	NonTrivial bool
	Abandoned  string // why the case was abandoned (engine and reference model disagree about an op: C04/C05 territory)
}

func (s *c06Stats) l(name string) { s.L[name]++ }

// per-index facts the runner tracks for the labels / the non-trivial rule
type c06IdxState struct {
	dead         map[string]bool // ids deleted (and not re-added) in this incarnation of the index
	vacuumedDead bool            // a vacuum ran while dead ids existed
	restarted    bool            // a restart happened while the index existed
	compressed   bool
}

type c06Runner struct {
	r   *Runner
	st  *c06Stats
	idx map[string]*c06IdxState
}

func (cr *c06Runner) state(idx string) *c06IdxState {
	s := cr.idx[idx]
	if s == nil {
		s = &c06IdxState{dead: map[string]bool{}}
		cr.idx[idx] = s
	}
	return s
}

// track updates the per-index facts after op was executed (err = what the engine answered).
func (cr *c06Runner) track(op Op, err error) {
	if op.K == KRestart {
		for name := range cr.r.M.Idx {
			cr.state(name).restarted = true
		}
		return
	}
	if err != nil {
		return
	}
	s := cr.state(op.Idx)
	switch op.K {
	case KCreate, KDrop:
		delete(cr.idx, op.Idx)
	case KDel:
		s.dead[op.ID] = true
	case KMaint:
		if op.Task == "vacuum" && len(s.dead) > 0 {
			s.vacuumedDead = true
		}
	case KCompress:
		s.compressed = true
	}
	if mi := cr.r.M.Idx[op.Idx]; mi != nil {
		for id := range s.dead {
			if mi.Live[id] != nil {
				delete(s.dead, id)
			}
		}
	}
}

func c06Alpha(a float64) float64 {
	if a < 0 || a > 1 {
		return 0.5 // ops.go VSearch doc: alpha in [0,1]; out-of-range values fall back to balanced fusion
	}
	return a
}

type c06Hit struct {
	ID      string
	Score   float64
	Sim, DF float64 // breakdown (VSearchWithScores only)
	HasBD   bool
}

// c06Resolved is a query after resolution against the model.
type c06Resolved struct {
	Idx        string
	Vec        []float32
	K, Ef      int
	FilterText string     // boolean filter as text ("" = none)
	Filter     *c06Filter // effective boolean filter
	FullFilter string     // what is handed to VSearch (may contain a CONTAINS clause)
	TextParam  string
	Scope      *c06ScopeQ
	Alpha      float64
}

func (q c06Resolved) String() string {
	s := fmt.Sprintf("index=%s query=%s k=%d ef=%d", q.Idx, c06FmtVec(q.Vec), q.K, q.Ef)
	if q.FullFilter != "" {
		s += fmt.Sprintf(" filter=%q", q.FullFilter)
	}
	if q.TextParam != "" {
		s += fmt.Sprintf(" text=%q alpha=%v", q.TextParam, q.Alpha)
	} else if q.FullFilter != q.FilterText {
		s += fmt.Sprintf(" alpha=%v", q.Alpha)
	}
	if q.Scope != nil {
		s += fmt.Sprintf(" scope={root=%s rels=%v dir=%q depth=%d}", q.Scope.Root, q.Scope.Rels, q.Scope.Dir, q.Scope.Depth)
	}
	return s
}

func c06LiveIDs(mi *mIdx) []string {
	ids := make([]string, 0, len(mi.Live))
	for id := range mi.Live {
		ids = append(ids, id)
	}
	sort.Strings(ids)
	return ids
}

func c06DescribeIndex(mi *mIdx, dead map[string]bool) string {
	var sb strings.Builder
	fmt.Fprintf(&sb, "%s/%s live={", mi.Cfg.Metric, mi.Prec)
	for _, id := range c06LiveIDs(mi) {
		fmt.Fprintf(&sb, " %s:%s", id, c06MetaStr(mi.Live[id].Meta))
	}
	fmt.Fprintf(&sb, " } deleted=%v", c06SortedKeys(dead))
	return sb.String()
}

func c06MetaStr(m map[string]any) string {
	keys := make([]string, 0, len(m))
	for k := range m {
		keys = append(keys, k)
	}
	sort.Strings(keys)
	parts := make([]string, 0, len(keys))
	for _, k := range keys {
		if k == "_created_at" || k == "_last_accessed" {
			parts = append(parts, k+":<time>") // wall-clock values would make the message differ between two runs of the same case
			continue
		}
		parts = append(parts, fmt.Sprintf("%s:%v", k, m[k]))
	}
	return "{" + strings.Join(parts, ",") + "}"
}

// query executes one query step against every search entry point. "" = all answers valid.
func (cr *c06Runner) query(q c06Query) string {
	r, st := cr.r, cr.st
	var names []string
	for n := range r.M.Idx {
		names = append(names, n)
	}
	if len(names) == 0 {
		st.l("q:skipped-no-index")
		return ""
	}
	sort.Strings(names)
	var nonEmpty []string
	for _, n := range names {
		if len(r.M.Idx[n].Live) > 0 {
			nonEmpty = append(nonEmpty, n)
		}
	}
	idx := names[q.IdxPick%len(names)]
	if len(nonEmpty) > 0 {
		idx = nonEmpty[q.IdxPick%len(nonEmpty)]
	}
	if q.Idx != "" && r.M.Idx[q.Idx] != nil {
		idx = q.Idx
	}
	mi := r.M.Idx[idx]
	is := cr.state(idx)
	live := c06LiveIDs(mi)
	n := len(live)
	dim := mi.liveDim()
	if dim == 0 {
		dim = mi.Dim
	}
	if dim == 0 {
		dim = mi.Cfg.Dim
	}
	e := r.E
	h := hnswOf(e, idx)
	if h == nil {
		return fmt.Sprintf("index %s exists in the model but the engine does not have it", idx)
	}

	// ---- resolve
	rq := c06Resolved{Idx: idx, Scope: q.Scope, Alpha: q.Alpha}
	if q.Scope != nil && q.RootPick >= 0 && n > 0 {
		// root = a live id; live ids that have an active edge to another live id are preferred (otherwise the scope
		// holds the root alone and nothing can be wrongly admitted or wrongly excluded by the traversal)
		sc := *q.Scope
		cands := live
		var linked []string
		pre := idx + "::"
		for _, id := range live {
			for _, ed := range r.M.Edges {
				if ed.D != 0 || ed.Src == ed.Tgt {
					continue
				}
				other := ""
				if ed.Src == pre+id && strings.HasPrefix(ed.Tgt, pre) {
					other = ed.Tgt[len(pre):]
				} else if ed.Tgt == pre+id && strings.HasPrefix(ed.Src, pre) {
					other = ed.Src[len(pre):]
				}
				if other != "" && mi.Live[other] != nil {
					linked = append(linked, id)
					break
				}
			}
		}
		if len(linked) > 0 && q.RootPick%4 != 3 {
			cands = linked
		}
		sc.Root = cands[q.RootPick%len(cands)]
		rq.Scope = &sc
	}
	kind := q.VecKind
	if (kind == "copy" || kind == "near") && n == 0 {
		kind = "grid"
	}
	if kind == "none" && q.Text == "" {
		kind = "zero"
	}
	switch kind {
	case "grid":
		rq.Vec = make([]float32, dim)
		for i := range rq.Vec {
			rq.Vec[i] = q.Vec[i%len(q.Vec)] // the grid repeats when the index is wider than the drawn grid
		}
	case "zero":
		rq.Vec = make([]float32, dim)
	case "none":
		rq.Vec = nil
	case "copy", "near":
		vd, err := e.VGet(idx, live[q.Pick%n])
		if err != nil || len(vd.Vector) != dim {
			return fmt.Sprintf("VGet(%s,%s) of a live id failed or has the wrong length: %v", idx, live[q.Pick%n], err)
		}
		rq.Vec = append([]float32(nil), vd.Vector...)
		if kind == "near" {
			for i := range rq.Vec {
				rq.Vec[i] += q.Vec[i%len(q.Vec)] * 0.125
			}
		}
	}
	st.l("vec:" + kind)
	rq.K = 1 + q.KPick%(n+3)
	switch q.Ef {
	case "1":
		rq.Ef = 1
	case "k":
		rq.Ef = rq.K
	case "200":
		rq.Ef = 200
	}
	rq.Filter = q.Filter
	textActiveMaybe := false // may the engine fuse a text score into the result?
	if q.Text != "" {
		if q.TextVia == "contains" {
			if rq.Filter != nil && len(rq.Filter.Blocks) > 1 {
				rq.Filter = &c06Filter{Blocks: rq.Filter.Blocks[:1], And: rq.Filter.And, Or: rq.Filter.Or} // CONTAINS(..) AND <one block>: no precedence question
			}
			rq.FilterText = c06Render(rq.Filter)
			rq.FullFilter = "CONTAINS(content, '" + q.Text + "')"
			if rq.FilterText != "" {
				rq.FullFilter += " AND " + rq.FilterText
			}
			textActiveMaybe = true // a CONTAINS clause always switches the fusion formula on (even if nothing matches)
		} else {
			rq.TextParam = q.Text
			rq.FilterText = c06Render(rq.Filter)
			rq.FullFilter = rq.FilterText
			textActiveMaybe = mi.Cfg.Lang != "" // without a text language nothing is ever text-indexed: pure vector search
		}
	} else {
		rq.FilterText = c06Render(rq.Filter)
		rq.FullFilter = rq.FilterText
	}
	zeroQuery := true
	for _, x := range rq.Vec {
		if x != 0 {
			zeroQuery = false
		}
	}
	textOnlyMaybe := zeroQuery && q.Text != "" && textActiveMaybe

	// ---- reference sets
	mayFilter := map[string]bool{}
	filterExcludes := false
	for _, id := range live {
		_, may := c06EvalFilter(normMeta(mi.Live[id].Meta), rq.Filter)
		mayFilter[id] = may
		if !may {
			filterExcludes = true
		}
	}
	var scope map[string]bool
	scopeExcludes := false
	if rq.Scope != nil {
		scope = c06Scope(r.M, idx, *rq.Scope)
		inScope := 0
		for _, id := range live {
			if scope[id] {
				inScope++
			} else {
				scopeExcludes = true
			}
		}
		if inScope > 1 {
			st.l("q:scope-holds>1-live")
		}
		if inScope == 0 {
			st.l("q:scope-holds-no-live")
		}
	}
	var gq *engine.GraphQuery
	if rq.Scope != nil {
		gq = &engine.GraphQuery{RootID: rq.Scope.Root, Relations: append([]string(nil), rq.Scope.Rels...), Direction: rq.Scope.Dir, MaxDepth: rq.Scope.Depth}
	}
	memCfg := c06MemCfg{}
	if mc := h.GetMemoryConfig(); mc.Enabled {
		memCfg = c06MemCfg{Enabled: true, Model: string(mc.DecayModel), HalfLifeS: time.Duration(mc.DecayHalfLife).Seconds()}
		if mc.Layers != nil {
			memCfg.Layers = map[string]float64{}
			for name, lc := range mc.Layers {
				memCfg.Layers[name] = time.Duration(lc.DecayHalfLife).Seconds()
			}
		}
	}
	var absMax float32
	if qz := h.Quantizer(); qz != nil {
		absMax = qz.AbsMax
	}

	// ---- labels
	st.l("q:total")
	st.l("q:prec:" + mi.Prec)
	st.l("q:metric:" + mi.Cfg.Metric)
	if rq.Filter != nil {
		st.l("q:with-filter")
	}
	if rq.Scope != nil {
		st.l("q:with-scope")
		st.l("q:scope-direction:" + rq.Scope.Dir)
	}
	if q.Text != "" {
		st.l("q:with-text:" + q.TextVia)
		if mi.Cfg.Lang != "" {
			st.l("q:with-text-on-text-index")
		}
	}
	if textOnlyMaybe {
		st.l("q:text-only")
	}
	if len(is.dead) > 0 {
		st.l("q:deleted-ids-present")
		if is.vacuumedDead {
			st.l("q:after-vacuum-of-deleted")
		}
	}
	if is.restarted {
		st.l("q:after-restart")
	}
	if is.compressed {
		st.l("q:after-compress")
	}
	if memCfg.Enabled {
		st.l("q:memory-index")
	}
	if rq.K > n {
		st.l("q:k>live")
	}
	if n == 0 {
		st.l("q:index-empty")
	}
	if filterExcludes {
		st.l("q:filter-excludes-live")
	}
	if scopeExcludes {
		st.l("q:scope-excludes-live")
	}
	if len(is.dead) > 0 || filterExcludes || scopeExcludes {
		st.NonTrivial = true
		st.l("q:non-trivial")
	}

	// ---- the validity predicate
	fm := c06Fmt
	if memCfg.Enabled {
		// decayed scores depend on the wall clock: fewer digits keep the message identical between two runs of the
		// same case (rapid only shrinks reproducible failures)
		fm = func(f float64) string { return strconv.FormatFloat(f, 'g', 4, 64) }
	}
	validate := func(ep string, hits []c06Hit, limit int, useFilter, useScope bool, scoreMode string, t0, t1 int64) string {
		fail := func(f string, a ...any) string {
			call := rq.String()
			switch ep {
			case "VSearchWithScores": // takes neither filter nor scope nor efSearch
				call = fmt.Sprintf("index=%s query=%s k=%d", rq.Idx, c06FmtVec(rq.Vec), rq.K)
			case "VFilter":
				call = fmt.Sprintf("index=%s filter=%q limit=%d", rq.Idx, rq.FilterText, rq.K)
			}
			return fmt.Sprintf("%s(%s) = %s: ", ep, call, c06Hits(hits, fm)) + fmt.Sprintf(f, a...) + "; index " + c06DescribeIndex(mi, is.dead)
		}
		st.l("ep:" + ep)
		if len(hits) > 0 {
			st.l("ep:" + ep + ":non-empty")
		}
		if len(hits) > limit {
			return fail("%d results, more than the %d requested", len(hits), limit)
		}
		seen := map[string]bool{}
		for i, ht := range hits {
			mv := mi.Live[ht.ID]
			if mv == nil {
				why := "an id that was never added to this index"
				if is.dead[ht.ID] {
					why = "a deleted id"
					if is.vacuumedDead {
						why = "a deleted (and possibly vacuumed) id"
					}
				}
				return fail("result #%d is %q, %s", i, ht.ID, why)
			}
			if seen[ht.ID] {
				return fail("id %q is returned twice", ht.ID)
			}
			seen[ht.ID] = true
			vd, err := e.VGet(idx, ht.ID)
			if err != nil {
				return fail("result #%d %q cannot be read back with VGet: %v", i, ht.ID, err)
			}
			if useFilter && !mayFilter[ht.ID] {
				return fail("result %q has metadata %s which does not satisfy the filter %q", ht.ID, c06MetaStr(mv.Meta), rq.FilterText)
			}
			if useScope && scope != nil && !scope[ht.ID] {
				return fail("result %q is outside the graph scope; nodes inside: %v", ht.ID, c06SortedKeys(scope))
			}
			if scoreMode == "" {
				continue
			}
			if math.IsNaN(ht.Score) {
				return fail("result %q has score NaN", ht.ID)
			}
			if i > 0 && ht.Score > hits[i-1].Score {
				return fail("scores are not non-increasing: #%d %s > #%d %s", i, fm(ht.Score), i-1, fm(hits[i-1].Score))
			}
			if scoreMode == "order" {
				st.l("score:order-only")
				continue
			}
			if len(vd.Vector) != len(rq.Vec) {
				continue
			}
			sLo, sHi, ok := c06SimBounds(mi.Cfg.Metric, mi.Prec, absMax, rq.Vec, vd.Vector)
			if !ok {
				st.l("score:skipped-int8-rounding-tie")
				continue
			}
			fLo, fHi := 1.0, 1.0
			if memCfg.Enabled {
				meta := normMeta(vd.Metadata)
				fLo, fHi = c06DecayRef(memCfg, meta, float64(t1)), c06DecayRef(memCfg, meta, float64(t0))
				st.l("score:decay-bracketed")
			}
			const rel = 1e-9
			switch scoreMode {
			case "vector":
				lo, hi := sLo*fLo*(1-rel), sHi*fHi*(1+rel)
				if ht.Score < lo || ht.Score > hi {
					return fail("score of %q is %s, but 1/(1+d) recomputed from the query and the stored vector %s lies in [%s, %s] and the decay factor in [%s, %s]", ht.ID, fm(ht.Score), c06FmtVec(vd.Vector), fm(sLo), fm(sHi), fm(fLo), fm(fHi))
				}
				if ht.HasBD {
					if ht.Sim < sLo*(1-rel) || ht.Sim > sHi*(1+rel) {
						return fail("breakdown similarity of %q is %s, recomputed 1/(1+d) lies in [%s, %s] (stored vector %s)", ht.ID, fm(ht.Sim), fm(sLo), fm(sHi), c06FmtVec(vd.Vector))
					}
					if ht.DF < fLo*(1-rel) || ht.DF > fHi*(1+rel) {
						return fail("breakdown decay factor of %q is %s, the documented factor lies in [%s, %s] (metadata %s)", ht.ID, fm(ht.DF), fm(fLo), fm(fHi), c06MetaStr(normMeta(vd.Metadata)))
					}
					if p := ht.Sim * ht.DF; math.Abs(ht.Score-p) > 1e-12+1e-9*math.Abs(p) {
						return fail("score of %q is %s but similarity x decay = %s x %s = %s", ht.ID, fm(ht.Score), fm(ht.Sim), fm(ht.DF), fm(p))
					}
				}
				st.l("score:recomputed")
			case "hybrid":
				// alpha*sim (if the vector side found the id) + (1-alpha)*t with t in [0,1] (text score / max text score), times decay
				a := c06Alpha(rq.Alpha)
				// (when no text field is indexed the engine falls back to pure vector search: score = sim, which float32
				// rounding of a cosine can push a hair above 1, i.e. above alpha*sim+(1-alpha))
				hi := math.Max(a*sHi+(1-a), sHi) * fHi * (1 + rel)
				if ht.Score < 0 || ht.Score > hi {
					return fail("fused score of %q is %s, outside [0, alpha*sim+(1-alpha)] = [0, %s] (alpha %v, sim in [%s, %s], decay <= %s)", ht.ID, fm(ht.Score), fm(hi), a, fm(sLo), fm(sHi), fm(fHi))
				}
				if a == 1 && ht.Score != 0 && (ht.Score < sLo*fLo*(1-rel) || ht.Score > sHi*fHi*(1+rel)) {
					return fail("alpha=1 (pure vector) but the score of %q is %s, neither 0 nor 1/(1+d) in [%s, %s] x decay [%s, %s]", ht.ID, fm(ht.Score), fm(sLo), fm(sHi), fm(fLo), fm(fHi))
				}
				st.l("score:hybrid-bound")
			}
		}
		return ""
	}

	scoreMode := "vector"
	switch {
	case textOnlyMaybe:
		scoreMode = "order" // raw BM25 scores (C09 recomputes them)
	case q.Text != "" && textActiveMaybe:
		scoreMode = "hybrid"
	}
	if rq.Vec == nil {
		scoreMode = "order"
	}

	// VSearch
	ids, err := e.VSearch(idx, append([]float32(nil), rq.Vec...), rq.K, rq.FullFilter, rq.TextParam, rq.Ef, rq.Alpha, gq)
	if err != nil {
		st.l("ep:VSearch:error")
	} else {
		hits := make([]c06Hit, len(ids))
		for i, id := range ids {
			hits[i] = c06Hit{ID: id}
		}
		if m := validate("VSearch", hits, rq.K, true, true, "", 0, 0); m != "" {
			return m
		}
	}
	// VSearchGraph (scores)
	t0 := time.Now().Unix()
	gres, err := e.VSearchGraph(idx, append([]float32(nil), rq.Vec...), rq.K, rq.FullFilter, rq.TextParam, rq.Ef, rq.Alpha, q.Rels, len(q.Rels) > 0, gq)
	t1 := time.Now().Unix()
	if err != nil {
		st.l("ep:VSearchGraph:error")
	} else {
		hits := make([]c06Hit, len(gres))
		for i, g := range gres {
			hits[i] = c06Hit{ID: g.ID, Score: g.Score}
		}
		if m := validate("VSearchGraph", hits, rq.K, true, true, scoreMode, t0, t1); m != "" {
			return m
		}
	}
	// VSearchWithScores (no filter, no scope, default ef)
	if rq.Vec != nil {
		t0 = time.Now().Unix()
		sres, err := e.VSearchWithScores(idx, append([]float32(nil), rq.Vec...), rq.K)
		t1 = time.Now().Unix()
		if err != nil {
			st.l("ep:VSearchWithScores:error")
		} else {
			hits := make([]c06Hit, len(sres))
			for i, s := range sres {
				hits[i] = c06Hit{ID: s.ID, Score: s.Score}
				if s.Breakdown != nil {
					hits[i].Sim, hits[i].DF, hits[i].HasBD = s.Breakdown.Similarity, s.Breakdown.DecayFactor, true
				}
			}
			if m := validate("VSearchWithScores", hits, rq.K, false, false, "vector", t0, t1); m != "" {
				return m
			}
		}
	}
	// VFilter
	if rq.Filter != nil {
		fids, err := e.VFilter(idx, rq.FilterText, rq.K)
		if err != nil {
			st.l("ep:VFilter:error")
		} else {
			hits := make([]c06Hit, len(fids))
			for i, id := range fids {
				hits[i] = c06Hit{ID: id}
			}
			if m := validate("VFilter", hits, rq.K, true, false, "", 0, 0); m != "" {
				return m
			}
		}
	}
	return ""
}

func c06Hits(h []c06Hit, fm func(float64) string) string {
	parts := make([]string, len(h))
	for i, x := range h {
		parts[i] = fmt.Sprintf("%q:%s", x.ID, fm(x.Score))
	}
	return "[" + strings.Join(parts, " ") + "]"
}

// c06Run interprets a case. "" = the property held.
func c06Run(c c06Case, seed int64, st *c06Stats) (msg string) {
	r, err := NewRunner(seed)
	if err != nil {
		return "harness: cannot open engine: " + err.Error()
	}
	defer debug.SetPanicOnFault(debug.SetPanicOnFault(true))
	defer func() {
		if p := recover(); p != nil {
			msg = fmt.Sprintf("panic while executing the case: %v\n%s", p, c06Frames(debug.Stack()))
		}
		r.Close()
	}()
	cr := &c06Runner{r: r, st: st, idx: map[string]*c06IdxState{}}
	qi := 0
	runQueries := func(upto int) string {
		for qi < len(c.Queries) && c.Queries[qi].At <= upto {
			q := c.Queries[qi]
			qi++
			at := upto
			if at >= len(c.Ops) {
				at = len(c.Ops) - 1
			}
			if m := cr.query(q); m != "" {
				// ids minted by VEvolve carry a wall-clock suffix: mask it, rapid only shrinks failures whose text is reproducible
				return c06EvolvedRe.ReplaceAllString(fmt.Sprintf("query #%d (after op %d): %s", qi-1, at, m), "evolved_${1}_<time>")
			}
		}
		return ""
	}
	for i, op := range c.Ops {
		if m := r.Step(op); m != "" {
			// engine and reference model disagree about the op itself: that is the subject of C04/C05, and the
			// model can no longer serve as the oracle for this case
			st.l("case:abandoned-model-step-disagreement")
			st.Abandoned = fmt.Sprintf("op %d %s(idx=%s id=%s): %s", i, op.K, op.Idx, op.ID, m)
			return ""
		}
		cr.track(op, r.LastErr)
		if m := runQueries(i); m != "" {
			return m
		}
	}
	return runQueries(math.MaxInt32)
}

// c06Frames renders a stack as function/file:line frames only (addresses would make the message differ between
// two runs of the same case, which disables shrinking).
func c06Frames(stack []byte) string {
	var out []string
	for _, ln := range strings.Split(string(stack), "\n") {
		ln = strings.TrimSpace(ln)
		if strings.HasPrefix(ln, "/") {
			if i := strings.Index(ln, " +0x"); i > 0 {
				ln = ln[:i]
			}
			if strings.Contains(ln, "/kektordb/") || strings.Contains(ln, "/repo/") || strings.Contains(ln, "/wt-") {
				out = append(out, ln)
			}
		}
		if len(out) >= 12 {
			break
		}
	}
	return strings.Join(out, " <- ")
}

func c06Labels(st *c06Stats) []string {
	out := make([]string, 0, len(st.L))
	for k := range st.L {
		out = append(out, "case-has:"+k)
	}
	sort.Strings(out)
	return out
}

func TestVerif_C06_history(t *testing.T) {
	col := verifkit.New("C06", "history", c06Rule)
	defer col.Finish()
	if p := verifkit.ReplayPath(); p != "" {
		if verifkit.ReplayPart(p) != "history" {
			return
		}
		var c c06Case
		if err := verifkit.LoadReplay(p, &c); err != nil {
			t.Fatalf("replay: %v", err)
		}
		st := &c06Stats{L: map[string]int{}}
		col.InFlight(c)
		msg := c06Run(c, 1, st)
		col.Landed()
		col.Case(c, true, "replay")
		if msg != "" {
			col.Fail(c, "%s", msg)
			t.Fatal(msg)
		}
		return
	}
	// (thorough is capped at 40000 cases = 5000 per process: every engine that was opened keeps ~0.4 MB of heap
	// reachable after Close - allocations of hnsw.New - so the resident size of a process grows with its case count)
	verifkit.RapidSetup(1500, 40000)
	defer func() {
		var ms runtime.MemStats
		runtime.GC()
		runtime.ReadMemStats(&ms)
		col.Extra("goroutines_at_end", runtime.NumGoroutine())
		col.Extra("heap_inuse_mb_at_end", int(ms.HeapInuse>>20))
		if f := os.Getenv("C06_GOROUTINE_DUMP"); f != "" {
			if w, err := os.Create(f); err == nil {
				_ = pprof.Lookup("goroutine").WriteTo(w, 1)
				w.Close()
			}
		}
	}()
	abandonedNotes := 0
	rapid.Check(t, func(rt *rapid.T) {
		c := c06Gen().Draw(rt, "case")
		h := verifkit.Hash(c)
		st := &c06Stats{L: map[string]int{}}
		col.InFlight(c)
		msg := c06Run(c, verifkit.CaseSeed(h), st)
		col.Landed()
		for _, op := range c.Ops {
			if op.Why == "c06-unlink-again" {
				st.l("history:edge-closed-reopened-closed-again")
				break
			}
		}
		for _, op := range c.Ops {
			if op.Why == "c06-chain-del" {
				st.l("history:middle-node-of-a-one-relation-chain-deleted")
				break
			}
		}
		col.CaseH(h, c, st.NonTrivial, c06Labels(st)...)
		for k, n := range st.L {
			col.Label(k, n)
		}
		if st.Abandoned != "" && abandonedNotes < 3 {
			abandonedNotes++
			if len(st.Abandoned) > 600 {
				st.Abandoned = st.Abandoned[:600]
			}
			col.Note("case abandoned (not a C06 verdict), shared runner reported: " + st.Abandoned)
		}
		if msg != "" {
			col.Fail(c, "%s", msg)
			rt.Fatalf("%s", msg)
		}
	})
}
