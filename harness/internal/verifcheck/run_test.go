package verifcheck

import (
	"fmt"
	"math/rand"
	"os"
	"path/filepath"
	"sort"
	"sync/atomic"
	"time"

	"github.com/sanonone/kektordb/internal/verifhook"
	"github.com/sanonone/kektordb/internal/verifkit"
	"github.com/sanonone/kektordb/pkg/core/distance"
	"github.com/sanonone/kektordb/pkg/core/types"
	"github.com/sanonone/kektordb/pkg/engine"
)

// Runner interprets a history against a real engine and the model in lock step.
type Runner struct {
	Dir     string
	E       *engine.Engine
	M       *Model
	cleanup func()
	Trace   []string // what happened, for failure messages
	// statistics for the evidence file
	NRestarts, NRejected, NApplied int
	Flags                          map[string]bool
	ghosts                         map[string][]string
	Excluded                       map[string]int
	cascadeBase                    int64 // value of hookCascadeEnd when this runner started
	nDeletes                       int64 // successful VDelete calls (each starts one cascade goroutine)
	LastErr                        error // error returned by the engine for the last Step (nil if it succeeded)
}

// hook plumbing: the engine (built with -tags verif) reports named step boundaries through
// internal/verifhook. The base callback counts finished delete cascades; a test may chain one
// more callback (crash imaging, forced schedules) with SetExtraHook.
var (
	hookCascadeEnd atomic.Int64
	extraHook      atomic.Pointer[func(string)]
)

func init() {
	verifhook.Set(func(name string) {
		// the extra callback (crash imaging, forced schedules) runs BEFORE the end of a cascade is published, so
		// the client goroutine that waits for the cascade cannot start its next operation while an image is taken
		if h := extraHook.Load(); h != nil {
			(*h)(name)
		}
		if name == "vdelete.cascade.end" {
			hookCascadeEnd.Add(1)
		}
	})
}

// SetExtraHook installs (nil removes) an additional hook callback.
func SetExtraHook(f func(string)) {
	if f == nil {
		extraHook.Store(nil)
		return
	}
	extraHook.Store(&f)
}

func engineOpts(dir string) engine.Options {
	o := engine.DefaultOptions(dir)
	o.AutoSaveInterval = 0
	o.AutoSaveThreshold = 0
	o.AofRewritePercentage = 0
	o.MaintenanceInterval = 1000 * time.Hour
	return o
}

func NewRunner(seed int64) (*Runner, error) {
	dir, cleanup := verifkit.TempDir("eng")
	rand.Seed(seed)
	e, err := engine.Open(engineOpts(filepath.Join(dir, "data")))
	if err != nil {
		cleanup()
		return nil, err
	}
	return &Runner{Dir: filepath.Join(dir, "data"), E: e, M: NewModel(), cleanup: cleanup, Flags: map[string]bool{}, Excluded: map[string]int{},
		cascadeBase: hookCascadeEnd.Load()}, nil
}

func (r *Runner) Close() {
	if r.E != nil {
		_ = r.E.Close()
		r.E = nil
	}
	if r.cleanup != nil {
		r.cleanup()
	}
}

func (r *Runner) tracef(f string, a ...any) {
	if len(r.Trace) < 400 {
		r.Trace = append(r.Trace, fmt.Sprintf(f, a...))
	}
}

// Restart closes and reopens the engine.
func (r *Runner) Restart() error {
	if err := r.E.Close(); err != nil {
		return fmt.Errorf("Close: %v", err)
	}
	e, err := engine.Open(engineOpts(r.Dir))
	if err != nil {
		r.E = nil
		return fmt.Errorf("Open after Close: %v", err)
	}
	r.E = e
	r.NRestarts++
	return nil
}

// adoptRanges copies the int8 quantiser range of every index from the engine into the model.
func (r *Runner) adoptRanges() {
	if r.E == nil {
		return
	}
	for name, mi := range r.M.Idx {
		mi.Range = 0
		if h := hnswOf(r.E, name); h != nil {
			if q := h.Quantizer(); q != nil && string(h.Precision()) == "int8" {
				mi.Range = q.AbsMax
			}
		}
	}
}

func (r *Runner) probeIDs() map[string][]string {
	p := map[string][]string{}
	for _, n := range uIndexes {
		ids := append([]string{}, uIDs...)
		if mi := r.M.Idx[n]; mi != nil {
			for id := range mi.Live {
				ids = append(ids, id)
			}
		}
		for _, g := range r.ghosts[n] {
			ids = append(ids, g)
		}
		p[n] = ids
	}
	return p
}

// Dump takes the engine dump probing every id the history has ever used.
func (r *Runner) Dump() (*Dump, error) { return TakeDump(r.E, r.probeIDs()) }

// CheckModel compares the engine with the model: "" if they agree.
func (r *Runner) CheckModel() string {
	d, err := r.Dump()
	if err != nil {
		return "reading the engine failed: " + err.Error()
	}
	return CheckAgainstModel(d, r.M)
}

func toBatch(items []Item) []types.BatchObject {
	out := make([]types.BatchObject, len(items))
	for i, it := range items {
		out[i] = types.BatchObject{Id: it.ID, Vector: append([]float32(nil), it.Vec...), Metadata: cloneMeta(it.Meta)}
	}
	return out
}

func cloneMeta(m map[string]any) map[string]any {
	if m == nil {
		return nil
	}
	return jsonNorm(m).(map[string]any)
}

func (r *Runner) settleCascade(idx, id string) string {
	g := gid(idx, id)
	deadline := time.Now().Add(2 * time.Minute) // long enough that a loaded machine cannot exceed it by slowness alone
	for {
		// every successful VDelete starts exactly one background cascade; it reports its end through the hook
		if hookCascadeEnd.Load()-r.cascadeBase >= r.nDeletes {
			in := r.E.DB.GetAllRelations(g, "in")
			out := r.E.DB.GetAllRelations(g, "out")
			if len(in) == 0 && len(out) == 0 {
				return ""
			}
			return fmt.Sprintf("delete cascade of %s finished but live edges remain: in=%v out=%v", g, in, out)
		}
		if time.Now().After(deadline) {
			return fmt.Sprintf("delete cascade of %s did not finish within 2 min with the engine idle", g)
		}
		time.Sleep(100 * time.Microsecond)
	}
}

// adoptEdgeTimes applies a link to the model; ts is taken from the engine afterwards.
func (m *Model) link(src, tgt, rel string, w float32, props string, ts int64) {
	for _, e := range m.Edges {
		if e.Src == src && e.Tgt == tgt && e.Rel == rel && e.D == 0 {
			if e.W == w && e.Props == props {
				return // identical: idempotent
			}
			e.D = ts
			break
		}
	}
	m.Edges = append(m.Edges, &mEdge{Src: src, Tgt: tgt, Rel: rel, W: w, Props: props, C: ts})
}

func (m *Model) unlink(src, tgt, rel string, hard bool, ts int64) {
	if hard {
		out := m.Edges[:0]
		for _, e := range m.Edges {
			if !(e.Src == src && e.Tgt == tgt && e.Rel == rel) {
				out = append(out, e)
			}
		}
		m.Edges = out
		return
	}
	for _, e := range m.Edges {
		if e.Src == src && e.Tgt == tgt && e.Rel == rel && e.D == 0 {
			e.D = ts
			return
		}
	}
}

// engineActiveCreated returns the CreatedAt of the engine's active version src-rel->tgt (0 if none).
func (r *Runner) engineActiveCreated(src, tgt, rel string) int64 {
	edges, _ := r.E.DB.GetOutEdges(src, rel, 0)
	for _, e := range edges {
		if e.TargetID == tgt {
			return e.CreatedAt
		}
	}
	return 0
}

// engineDeletedAt returns the DeletedAt of the engine's version src-rel->tgt created at c (-1 if not found).
func (r *Runner) engineDeletedAt(src, tgt, rel string, c int64) int64 {
	var d int64 = -1
	r.E.DB.IterateGraphEdges(func(source, target, rl string, weight float32, props []byte, cTime, dTime int64) {
		if source == src && target == tgt && rl == rel && cTime == c {
			d = dTime
		}
	})
	return d
}

func (m *Model) activeEdge(src, tgt, rel string) *mEdge {
	for _, e := range m.Edges {
		if e.Src == src && e.Tgt == tgt && e.Rel == rel && e.D == 0 {
			return e
		}
	}
	return nil
}

func (m *Model) noteTime(ts int64) {
	if ts > 0 {
		m.Times = append(m.Times, ts)
	}
}

// modelLink mirrors one VLink(src,tgt,rel,inv) on the model, adopting the engine's timestamp (bracketed by t0,t1).
func (r *Runner) modelLink(idx, s, t, rel, inv string, w float32, props string, t0, t1 int64) string {
	src, tgt := gid(idx, s), gid(idx, t)
	one := func(a, b, rl string) string {
		act := r.M.activeEdge(a, b, rl)
		if act != nil && act.W == w && act.Props == props {
			return "" // idempotent: nothing to adopt
		}
		ts := r.engineActiveCreated(a, b, rl)
		if ts < t0 || ts > t1 {
			return fmt.Sprintf("after VLink %s-%s->%s the active version has created=%d outside the call bracket [%d,%d]", a, rl, b, ts, t0, t1)
		}
		r.M.link(a, b, rl, w, props, ts)
		r.M.noteTime(ts)
		return ""
	}
	if msg := one(src, tgt, rel); msg != "" {
		return msg
	}
	if inv != "" {
		return one(tgt, src, inv)
	}
	return ""
}

func (r *Runner) modelUnlink(idx, s, t, rel, inv string, hard bool, t0, t1 int64) string {
	src, tgt := gid(idx, s), gid(idx, t)
	one := func(a, b, rl string) string {
		if hard {
			r.M.unlink(a, b, rl, true, 0)
			return ""
		}
		act := r.M.activeEdge(a, b, rl)
		if act == nil {
			return ""
		}
		d := r.engineDeletedAt(a, b, rl, act.C)
		if d < t0 || d > t1 {
			return fmt.Sprintf("after soft VUnlink %s-%s->%s the version created at %d has deleted=%d outside the call bracket [%d,%d]", a, rl, b, act.C, d, t0, t1)
		}
		act.D = d
		r.M.noteTime(d)
		return ""
	}
	if msg := one(src, tgt, rel); msg != "" {
		return msg
	}
	if inv != "" {
		return one(tgt, src, inv)
	}
	return ""
}

// autoMeta mirrors the documented metadata injection of memory-enabled indexes, adopting observed values.
func (r *Runner) adoptMemoryMeta(idx, id string, meta map[string]any, single bool, t0, t1 time.Time) (map[string]any, string) {
	mi := r.M.Idx[idx]
	mc := mi.Cfg.Memory
	out := normMeta(meta)
	if mc == nil || !mc.Enabled {
		return out, ""
	}
	vd, err := r.E.VGet(idx, id)
	if err != nil {
		return out, ""
	}
	obs := normMeta(vd.Metadata)
	if _, ok := out["_created_at"]; !ok {
		c, ok := obs["_created_at"].(float64)
		if !ok || c < float64(t0.Unix()) || c > float64(t1.Unix()) {
			return out, fmt.Sprintf("memory index %s id %s: _created_at=%v not inside the call bracket [%d,%d]", idx, id, obs["_created_at"], t0.Unix(), t1.Unix())
		}
		out["_created_at"] = c
	}
	if single && mc.Layers {
		layer, _ := out["memory_layer"].(string)
		if layer == "" {
			layer = "episodic"
			out["memory_layer"] = layer
		}
		if layer == "procedural" {
			if _, set := out["_pinned"]; !set {
				out["_pinned"] = true
			}
		}
	}
	return out, ""
}

func (r *Runner) autoLink(idx, id string, meta map[string]any, t0, t1 int64) string {
	mi := r.M.Idx[idx]
	if mi == nil || len(meta) == 0 {
		return ""
	}
	for _, rule := range mi.AutoLink {
		v, ok := meta[rule.Field]
		if !ok {
			continue
		}
		tgt := fmt.Sprintf("%v", v)
		if tgt == "" {
			continue
		}
		if msg := r.modelLink(idx, id, tgt, rule.Rel, "", 1.0, "", t0, t1); msg != "" {
			return "auto-link: " + msg
		}
	}
	return ""
}

// Step executes one op on the engine and the model. It returns a violation message or "".
func (r *Runner) Step(op Op) string {
	exp := r.M.Expect(op)
	e := r.E
	var err error
	r.LastErr = nil
	w0 := time.Now()
	t0 := w0.UnixNano()
	var evolvedID string
	switch op.K {
	case KKVSet:
		err = e.KVSet(op.Key, append([]byte(nil), op.Val...))
	case KKVDel:
		err = e.KVDelete(op.Key)
	case KCreate:
		c := op.Cfg
		var mc = toMemory(c.Memory)
		var maint = (*MaintCfg)(c.Maint)
		if maint != nil {
			mm := toMaint(maint)
			err = e.VCreate(op.Idx, distance.DistanceMetric(c.Metric), c.M, c.EfC, distance.PrecisionType(c.Prec), c.Lang, &mm, toAutoLinks(c.AutoLink), mc)
		} else {
			err = e.VCreate(op.Idx, distance.DistanceMetric(c.Metric), c.M, c.EfC, distance.PrecisionType(c.Prec), c.Lang, nil, toAutoLinks(c.AutoLink), mc)
		}
	case KDrop:
		err = e.VDeleteIndex(op.Idx)
	case KAdd:
		err = e.VAdd(op.Idx, op.ID, append([]float32(nil), op.Vec...), cloneMeta(op.Meta))
	case KBatch:
		err = e.VAddBatch(op.Idx, toBatch(op.Items))
	case KImport:
		err = e.VImport(op.Idx, toBatch(op.Items))
		if err == nil {
			if serr := e.SaveSnapshot(); serr != nil {
				return "SaveSnapshot after VImport failed: " + serr.Error()
			}
		}
	case KDel:
		err = e.VDelete(op.Idx, op.ID)
	case KSetMeta:
		err = e.VSetMetadata(op.Idx, op.ID, cloneMeta(op.Meta))
	case KReinforce:
		err = e.VReinforce(op.Idx, op.IDs)
	case KEvolve:
		evolvedID, err = e.VEvolve(op.Idx, op.ID, append([]float32(nil), op.Vec...), cloneMeta(op.Meta), op.Why)
	case KLink:
		var props map[string]any
		if op.Props != nil {
			props = cloneMeta(op.Props)
			if props == nil {
				props = map[string]any{}
			}
		}
		err = e.VLink(op.Idx, op.ID, op.ID2, op.Rel, op.Inv, op.W, props)
	case KUnlink:
		err = e.VUnlink(op.Idx, op.ID, op.ID2, op.Rel, op.Inv, op.Hard)
	case KConfig:
		err = e.VUpdateIndexConfig(op.Idx, toMaint(op.Cfg.Maint))
	case KAutoLinks:
		err = e.VUpdateAutoLinks(op.Idx, toAutoLinks(op.Cfg.AutoLink))
	case KSnapshot:
		err = e.SaveSnapshot()
	case KRewrite:
		err = e.RewriteAOF()
	case KFlush:
		err = e.AOF.Flush()
	case KCompress:
		if op.Stale {
			// what a crash inside an earlier compression (or its background clean-up that has not run yet) leaves behind
			stale := filepath.Join(r.Dir, "arenas", op.Idx+".old_compress")
			if os.MkdirAll(stale, 0o755) == nil {
				_ = os.WriteFile(filepath.Join(stale, "arena_0000.bin"), []byte("stale"), 0o644)
			}
		}
		err = e.VCompress(op.Idx, distance.PrecisionType(op.Prec))
	case KMaint:
		err = e.VTriggerMaintenance(op.Idx, op.Task)
	case KRestart:
		if rerr := r.Restart(); rerr != nil {
			return rerr.Error()
		}
		r.tracef("restart")
		return ""
	default:
		return "harness: unknown op kind " + op.K
	}
	w1 := time.Now()
	t1 := w1.UnixNano()
	r.tracef("%s idx=%s id=%s -> err=%v", op.K, op.Idx, op.ID, err)

	r.LastErr = err
	r.adoptRanges()
	if err != nil {
		r.NRejected++
		if exp == MustOK {
			return fmt.Sprintf("op %s (idx=%s id=%s) must succeed in this state but returned: %v", op.K, op.Idx, op.ID, err)
		}
		return "" // rejected: the model does not change
	}
	if exp == MustErr {
		return fmt.Sprintf("op %s (idx=%s id=%s why=%s) must be rejected in this state but succeeded", op.K, op.Idx, op.ID, op.Why)
	}
	r.NApplied++
	m := r.M
	mi := m.Idx[op.Idx]
	switch op.K {
	case KKVSet:
		m.KV[op.Key] = append([]byte{}, op.Val...)
	case KKVDel:
		delete(m.KV, op.Key)
	case KCreate:
		cfg := *op.Cfg
		m.Idx[op.Idx] = &mIdx{Cfg: cfg, Prec: cfg.Prec, Live: map[string]*mVec{}, Maint: cfg.Maint, AutoLink: cfg.AutoLink}
	case KDrop:
		for id := range mi.Live {
			r.addGhost(op.Idx, id)
		}
		delete(m.Idx, op.Idx)
	case KAdd:
		if mi == nil {
			return "" // Either-case on unknown model state
		}
		vec := op.Vec
		if len(vec) == 0 {
			d := mi.liveDim()
			if d == 0 {
				d = mi.Dim
			}
			vec = make([]float32, d)
		}
		if mi.Dim == 0 {
			mi.Dim = len(vec)
		}
		meta, msg := r.adoptMemoryMeta(op.Idx, op.ID, op.Meta, true, w0, w1)
		if msg != "" {
			return msg
		}
		mi.Live[op.ID] = &mVec{Base: mi.baseOf(vec), Meta: meta}
		if msg := r.autoLink(op.Idx, op.ID, meta, t0, t1); msg != "" {
			return msg
		}
	case KBatch, KImport:
		if mi == nil {
			return ""
		}
		d := mi.liveDim()
		if d == 0 {
			d = mi.Dim
		}
		if d == 0 {
			for _, it := range op.Items {
				if len(it.Vec) > 0 {
					d = len(it.Vec)
					break
				}
			}
		}
		if mi.Dim == 0 {
			mi.Dim = d
		}
		for _, it := range op.Items {
			vec := it.Vec
			if len(vec) == 0 {
				vec = make([]float32, d)
			}
			meta, msg := r.adoptMemoryMeta(op.Idx, it.ID, it.Meta, false, w0, w1)
			if msg != "" {
				return msg
			}
			mi.Live[it.ID] = &mVec{Base: mi.baseOf(vec), Meta: meta}
		}
		for _, it := range op.Items {
			if len(it.Meta) > 0 {
				if msg := r.autoLink(op.Idx, it.ID, mi.Live[it.ID].Meta, t0, t1); msg != "" {
					return msg
				}
			}
		}
	case KDel:
		delete(mi.Live, op.ID)
		r.addGhost(op.Idx, op.ID)
		r.nDeletes++
		if msg := r.settleCascade(op.Idx, op.ID); msg != "" {
			return msg
		}
		// the cascade soft-unlinks every active edge incident to the node
		t1 = time.Now().UnixNano()
		g := gid(op.Idx, op.ID)
		for _, ed := range m.Edges {
			if ed.D == 0 && (ed.Src == g || ed.Tgt == g) {
				d := r.engineDeletedAt(ed.Src, ed.Tgt, ed.Rel, ed.C)
				if d < t0 || d > t1 {
					return fmt.Sprintf("after VDelete(%s) settled, edge %s-%s->%s (created %d) has deleted=%d, want a time inside [%d,%d]", g, ed.Src, ed.Rel, ed.Tgt, ed.C, d, t0, t1)
				}
				ed.D = d
				m.noteTime(d)
			}
		}
	case KSetMeta:
		mv := mi.Live[op.ID]
		nm := normMeta(mv.Meta)
		for k, v := range normMeta(op.Meta) {
			nm[k] = v
		}
		mv.Meta = nm
	case KReinforce:
		seen := map[string]int{}
		for _, id := range op.IDs {
			seen[id]++
		}
		for id, n := range seen {
			mv := mi.Live[id]
			if mv == nil {
				continue
			}
			nm := normMeta(mv.Meta)
			c, _ := nm["_access_count"].(float64)
			nm["_access_count"] = c + float64(n)
			vd, gerr := e.VGet(op.Idx, id)
			if gerr != nil {
				return fmt.Sprintf("VGet(%s,%s) after VReinforce: %v", op.Idx, id, gerr)
			}
			la, ok := vd.Metadata["_last_accessed"].(float64)
			if !ok || la < float64(w0.Unix()) || la > float64(w1.Unix()) {
				return fmt.Sprintf("after VReinforce(%s,%s) _last_accessed=%v not inside the call bracket [%d,%d]", op.Idx, id, vd.Metadata["_last_accessed"], w0.Unix(), w1.Unix())
			}
			nm["_last_accessed"] = la
			mv.Meta = nm
		}
	case KEvolve:
		old := mi.Live[op.ID]
		merged := normMeta(old.Meta)
		for k, v := range normMeta(op.Meta) {
			merged[k] = v
		}
		if evolvedID == "" || evolvedID == op.ID || mi.Live[evolvedID] != nil {
			return fmt.Sprintf("VEvolve returned id %q which is empty or already live", evolvedID)
		}
		// incoming relations of the old node are copied to the new one
		gOld := gid(op.Idx, op.ID)
		type inc struct{ src, rel string }
		var incs []inc
		for _, ed := range m.Edges {
			if ed.D == 0 && ed.Tgt == gOld {
				incs = append(incs, inc{ed.Src, ed.Rel})
			}
		}
		for _, ic := range incs {
			srcID := ic.src
			if p := len(op.Idx) + 2; len(srcID) >= p {
				srcID = srcID[p:]
			}
			if msg := r.modelLink(op.Idx, srcID, evolvedID, ic.rel, "", 0, "", t0, t1); msg != "" {
				return "evolve copy-incoming: " + msg
			}
		}
		// the evolution link carries {reason, timestamp}; adopt the observed props after checking the reason
		edges, _ := e.VGetEdges(op.Idx, op.ID, "superseded_by", 0)
		var props string
		for _, ge := range edges {
			if ge.TargetID == evolvedID {
				pm := ge.GetProps()
				if pm["reason"] != op.Why {
					return fmt.Sprintf("evolution link reason=%v, want %q", pm["reason"], op.Why)
				}
				props = canonProps(ge.Props)
			}
		}
		if props == "" {
			return fmt.Sprintf("VEvolve(%s,%s) succeeded but no superseded_by edge to %s is visible", op.Idx, op.ID, evolvedID)
		}
		if msg := r.modelLink(op.Idx, op.ID, evolvedID, "superseded_by", "evolves_from", 0, props, t0, t1); msg != "" {
			return "evolve link: " + msg
		}
		vec := op.Vec
		if len(vec) == 0 {
			vec = make([]float32, mi.liveDim())
		}
		meta, msg := r.adoptMemoryMeta(op.Idx, evolvedID, merged, true, w0, w1)
		if msg != "" {
			return msg
		}
		mi.Live[evolvedID] = &mVec{Base: mi.baseOf(vec), Meta: meta}
		if msg := r.autoLink(op.Idx, evolvedID, meta, t0, t1); msg != "" {
			return msg
		}
		om := normMeta(old.Meta)
		om["_is_historical"] = true
		old.Meta = om
	case KLink:
		if msg := r.modelLink(op.Idx, op.ID, op.ID2, op.Rel, op.Inv, op.W, canonPropsMap(op.Props), t0, t1); msg != "" {
			return msg
		}
	case KUnlink:
		if msg := r.modelUnlink(op.Idx, op.ID, op.ID2, op.Rel, op.Inv, op.Hard, t0, t1); msg != "" {
			return msg
		}
	case KConfig:
		mi.Maint = op.Cfg.Maint
	case KAutoLinks:
		mi.AutoLink = op.Cfg.AutoLink
	case KCompress:
		mi.Prec = op.Prec
		r.Flags["compressed"] = true
	}
	return ""
}

// ghosts: ids that were live once per index; they are probed forever after so resurrection is seen
func (r *Runner) addGhost(idx, id string) {
	if r.ghosts == nil {
		r.ghosts = map[string][]string{}
	}
	for _, g := range r.ghosts[idx] {
		if g == id {
			return
		}
	}
	r.ghosts[idx] = append(r.ghosts[idx], id)
	sort.Strings(r.ghosts[idx])
}

// Restart2 reopens an engine that the caller has already closed.
func (r *Runner) Restart2() error {
	e, err := engine.Open(engineOpts(r.Dir))
	if err != nil {
		return err
	}
	r.E = e
	return nil
}
