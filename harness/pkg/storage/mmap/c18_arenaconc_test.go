package mmap

// C18 (c, continued):
//   * arenaconc - reader goroutines verify patterns while compaction runs
//     (unit built with -race; the race detector does not instrument the
//     mmap'd bytes themselves, so the pattern comparison is what observes
//     aliasing of vector bytes, -race observes the slot table / chunk list);
//     snapshotter goroutines call GetState and then read and gob-encode the
//     returned value, as core.Snapshot() does after the arena lock is
//     released, while the compactor (and an AllocSlot/FreeSlot churn on ids
//     of its own) keeps running: a returned slice that shares its backing
//     array with the live allocator is a data race (the unit runs with
//     GORACE=halt_on_error=1, the in-flight case is the replay) and, without
//     relying on the detector, the value must stay equal to a copy taken at
//     once and stay a consistent cut (no slot both free and assigned);
//   * geometry  - the unmodified 64 MiB chunk geometry: slots at both ends of
//     several chunks for generated vector sizes neither overlap each other
//     nor the 64-byte header, and survive close/reopen.

import (
	"bytes"
	"encoding/gob"
	"fmt"
	"io"
	"runtime"
	"sync"
	"sync/atomic"
	"testing"
	"time"

	"github.com/sanonone/kektordb/internal/verifkit"
	"pgregory.net/rapid"
)

// ---------------------------------------------------------------- arenaconc

type c18CCase struct {
	VecSize  int      `json:"vec_size"`
	PerChunk int      `json:"per_chunk"`
	N        int      `json:"n"`               // ids 0..n-1 are allocated and written
	Free     []uint32 `json:"free"`            // then these are freed (holes for the compactor)
	Readers  int      `json:"readers"`         // reader goroutines
	Cycles   int      `json:"cycles"`          // real RunCycle calls (deadline + Stop)
	Steps    int      `json:"steps"`           // deterministic relocation batches run by the compacting goroutine between cycles
	Snaps    int      `json:"snaps,omitempty"` // snapshotter goroutines: GetState, then read + gob-encode the returned value
	Churn    int      `json:"churn,omitempty"` // ids n..n+churn-1 are allocated/freed (AllocSlot/FreeSlot only, no byte access) by one more goroutine during the concurrent phase
}

type c18CStats struct {
	reads, movedBetween, relocations int64
	timeouts                         int
	states, statesWithFree, churnOps int64
}

// A reader obtains the bytes of a live id with GetBytes, exactly as a caller
// would. The README states that such a slice must not be held across a
// relocation, so the comparison is made under slotMu.RLock (relocation needs
// slotMu.Lock): if the id still lives where GetBytes pointed, the bytes GetBytes
// returned are compared; if it was relocated in between, its current slot is
// compared instead. Either way the slot that currently belongs to the id must
// hold the id's pattern, and the node pointer must alias that slot.
func c18Reader(r *c18Runner, ids []uint32, start int, stop *atomic.Bool, fail *atomic.Pointer[string], st *c18CStats) {
	va := r.va
	report := func(m string) {
		fail.CompareAndSwap(nil, &m)
		stop.Store(true)
	}
	defer func() {
		if rec := recover(); rec != nil {
			report(fmt.Sprintf("panic in a reader during compaction: %v", rec))
		}
	}()
	want := map[uint32][]byte{}
	for _, id := range ids {
		want[id] = c18Pattern(id, r.model[id], r.vecSize)
	}
	for i := start; !stop.Load(); i++ {
		id := ids[i%len(ids)]
		b, err := va.GetBytes(id)
		if err != nil {
			report(fmt.Sprintf("GetBytes(%d) of a live id failed during compaction: %v", id, err))
			return
		}
		msg := ""
		va.slotMu.RLock()
		va.mu.RLock()
		s := va.slotTable[id]
		ci := int(s) / va.vecsPerChk
		switch {
		case s == UnallocatedSlot:
			msg = fmt.Sprintf("live id %d lost its slot during compaction", id)
		case ci >= len(va.chunks) || va.chunks[ci] == nil || va.chunks[ci].Data == nil:
			msg = fmt.Sprintf("live id %d maps to slot %d in missing chunk %d during compaction", id, s, ci)
		default:
			off := ArenaHeaderSize + (int(s)%va.vecsPerChk)*va.vectorSize
			cur := va.chunks[ci].Data[off : off+va.vectorSize]
			same := c18Addr(cur) == c18Addr(b)
			if !same {
				atomic.AddInt64(&st.movedBetween, 1)
			}
			if !bytes.Equal(cur, want[id]) {
				if same {
					msg = fmt.Sprintf("during compaction GetBytes(%d) reads %s, stored %s", id, c18Hex(b), c18Hex(want[id]))
				} else {
					msg = fmt.Sprintf("during compaction id %d was relocated to slot %d which holds %s, stored %s", id, s, c18Hex(cur), c18Hex(want[id]))
				}
			} else if p := r.upd.ptr[id].Load(); p == nil || c18Addr(*p) != c18Addr(cur) {
				msg = fmt.Sprintf("during compaction the node pointer of id %d does not alias its current slot %d", id, s)
			}
		}
		va.mu.RUnlock()
		va.slotMu.RUnlock()
		atomic.AddInt64(&st.reads, 1)
		if msg != "" {
			report(msg)
			return
		}
	}
}

// c18Snapshotter does what core.Snapshot() does with the arena: obtain the
// state under the arena's lock (GetState), then - the lock long released, the
// allocator being mutated by others - read every element and gob-encode it.
// Besides the race detector's view of those reads: the value must not change
// while it is held and must be a consistent cut of the allocator.
func c18Snapshotter(r *c18Runner, stop *atomic.Bool, fail *atomic.Pointer[string], st *c18CStats) {
	va := r.va
	report := func(m string) {
		fail.CompareAndSwap(nil, &m)
		stop.Store(true)
	}
	defer func() {
		if rec := recover(); rec != nil {
			report(fmt.Sprintf("panic while reading/encoding a value returned by GetState during compaction: %v", rec))
		}
	}()
	for !stop.Load() {
		held := va.GetState()
		cp := c18CloneState(held) // reads every element once
		first, err := c18GobState(held)
		if err != nil {
			report(fmt.Sprintf("a value returned by GetState cannot be gob-encoded: %v", err))
			return
		}
		if m := c18StateSelfCheck(held); m != "" {
			report("during compaction GetState returned an inconsistent state: " + m)
			return
		}
		for i := 0; i < 3 && !stop.Load(); i++ { // hold it for a while, as a snapshot of many indexes does
			runtime.Gosched()
			var sum uint64
			for _, x := range held.SlotTable {
				sum += uint64(x)
			}
			for _, x := range held.FreeSlots {
				sum += uint64(x)
			}
			_ = sum
			if err := gob.NewEncoder(io.Discard).Encode(held); err != nil {
				report(fmt.Sprintf("a value returned by GetState cannot be gob-encoded: %v", err))
				return
			}
		}
		d := c18StateDiff(cp, held)
		if d == "" {
			if again, err := c18GobState(held); err != nil || !bytes.Equal(first, again) {
				d = "its gob encoding differs from the one taken when GetState returned"
			}
		}
		if d != "" {
			report("an ArenaState changed after GetState returned it, while the compactor was running: " + d + " (GetState returns copies; core.Snapshot() encodes the value after the arena lock is released)")
			return
		}
		if m := c18StateSelfCheck(held); m != "" {
			report("an ArenaState held during compaction became inconsistent: " + m)
			return
		}
		atomic.AddInt64(&st.states, 1)
		if len(held.FreeSlots) > 0 {
			atomic.AddInt64(&st.statesWithFree, 1)
		}
	}
}

// c18Churn allocates and frees ids of its own (never in the model, never
// read by a reader). It only calls AllocSlot/FreeSlot - pop and push on the
// allocator's free list - and never touches vector bytes, so whatever the
// compactor does with these slots cannot reach a model id's bytes through
// this goroutine.
func c18Churn(va *VectorArena, base uint32, n int, stop *atomic.Bool, fail *atomic.Pointer[string], st *c18CStats) {
	defer func() {
		if rec := recover(); rec != nil {
			m := fmt.Sprintf("panic in AllocSlot/FreeSlot during compaction: %v", rec)
			fail.CompareAndSwap(nil, &m)
			stop.Store(true)
		}
	}()
	for k := 0; !stop.Load(); k++ {
		id := base + uint32(k%n)
		if (k/n)%2 == 0 {
			if _, err := va.AllocSlot(id); err != nil {
				m := fmt.Sprintf("AllocSlot(%d) failed during compaction: %v", id, err)
				fail.CompareAndSwap(nil, &m)
				stop.Store(true)
				return
			}
		} else {
			va.FreeSlot(id)
		}
		atomic.AddInt64(&st.churnOps, 1)
		if k%4 == 3 {
			runtime.Gosched()
		}
	}
}

func c18RunCCase(c c18CCase, deadline time.Duration, st *c18CStats) (msg string, hz *c18Harness) {
	if c.VecSize < 1 || c.PerChunk < 1 || c.N < 1 || c.N > 4096 || c.Readers < 1 || c.Readers > 64 || c.Snaps < 0 || c.Snaps > 8 || c.Churn < 0 || c.Churn > 256 {
		return "", nil
	}
	dir, cleanup := verifkit.TempDir("c18conc")
	defer cleanup()
	r := &c18Runner{dir: dir, vecSize: c.VecSize, perChunk: c.PerChunk, model: map[uint32]uint32{},
		upd: &c18Updater{ptr: map[uint32]*atomic.Pointer[[]byte]{}}, nextNew: 8192, deadline: deadline}
	defer func() {
		if rec := recover(); rec != nil {
			msg = fmt.Sprintf("panic in the arena: %v", rec)
		}
		if r.va != nil {
			_ = r.va.Close()
		}
	}()
	if m := r.open(); m != "" {
		return m, nil
	}
	for i := 0; i < c.N; i++ {
		if m := r.allocWrite(uint32(i), uint32(i)*31+5); m != "" {
			return m, nil
		}
	}
	for _, id := range c.Free {
		if _, h := r.apply(c18AOp{Op: "free", ID: id}); h != nil {
			return "", h
		}
	}
	if m := r.check("before the concurrent phase"); m != "" {
		return m, nil
	}
	ids := r.sortedLive()
	var stop atomic.Bool
	var fail atomic.Pointer[string]
	var wg sync.WaitGroup
	if len(ids) > 0 {
		for g := 0; g < c.Readers; g++ {
			wg.Add(1)
			go func(g int) {
				defer wg.Done()
				c18Reader(r, ids, g*len(ids)/c.Readers, &stop, &fail, st)
			}(g)
		}
	}
	for g := 0; g < c.Snaps; g++ {
		wg.Add(1)
		go func() {
			defer wg.Done()
			c18Snapshotter(r, &stop, &fail, st)
		}()
	}
	if c.Churn > 0 {
		wg.Add(1)
		go func() {
			defer wg.Done()
			c18Churn(r.va, uint32(c.N), c.Churn, &stop, &fail, st)
		}()
	}
	// the compacting goroutine (this one)
	for k := 0; k < c.Cycles && !stop.Load(); k++ {
		for s := 0; s < c.Steps && !stop.Load(); s++ {
			if m := r.step(c18AOp{Op: "step", Chunk: -1}); m != "" {
				stop.Store(true)
				wg.Wait()
				return m, nil
			}
		}
		if _, h := r.cycle(); h != nil {
			stop.Store(true)
			wg.Wait()
			return "", h
		}
	}
	stop.Store(true)
	wg.Wait()
	st.relocations = r.upd.moves.Load()
	st.timeouts = r.cycleTimeouts
	if p := fail.Load(); p != nil {
		return *p, nil
	}
	for j := 0; j < c.Churn; j++ { // the churn ids are not part of the model: release them
		r.va.FreeSlot(uint32(c.N + j))
	}
	if m := r.check("after the concurrent phase"); m != "" {
		return m, nil
	}
	if m := r.reopen(); m != "" {
		return "close/reopen after the concurrent phase: " + m, nil
	}
	if m := r.check("after close/reopen following the concurrent phase"); m != "" {
		return m, nil
	}
	return "", nil
}

func TestVerif_C18_arenaconc(t *testing.T) {
	c18Quiet()
	col := verifkit.New("C18", "arenaconc", "rapid: arena with vector size {8,24,100,512}, 2-8 vectors per chunk (lowered, see part arena), 12-96 ids written, a generated subset freed (holes), then 2-6 reader goroutines loop over all live ids (GetBytes, compare under slotMu.RLock with the id's own pattern, node pointer must alias the current slot) while this goroutine runs 1-3 x (0-6 deterministic relocation sweeps (one batch per chunk) + one real RunCycle under a deadline, ended with Stop()), 1-2 snapshotter goroutines loop GetState -> copy, gob-encode, read every element three more times with yields, compare with the copy and the first encoding, the value must be and stay a consistent cut (no physical slot assigned twice, none both on FreeSlots and in SlotTable), and optionally one goroutine alternately AllocSlot/FreeSlot-s 4 or 16 ids of its own (no byte access); a data race report ends the process (GORACE=halt_on_error=1) and the journalled case is the replay; afterwards the sequential invariants, close/reopen/LoadState and the invariants again; built with -race; non-trivial = vectors were relocated while readers were running and live ids span >=3 chunks")
	defer col.Finish()
	deadline := time.Duration(verifkit.Pick(25, 60)) * time.Millisecond
	if p := verifkit.ReplayPath(); p != "" {
		if verifkit.ReplayPart(p) != "arenaconc" {
			return
		}
		var c c18CCase
		if err := verifkit.LoadReplay(p, &c); err != nil {
			t.Fatal(err)
		}
		col.Case(c, true, "replay")
		// a schedule-dependent failure may need several attempts
		for i := 0; i < 20; i++ {
			var st c18CStats
			col.InFlight(c) // a data race report ends the process when GORACE=halt_on_error=1
			msg, hz := c18RunCCase(c, 60*time.Millisecond, &st)
			col.Landed()
			if hz != nil {
				t.Fatalf("harness: %s", hz.msg)
			}
			if msg != "" {
				col.Fail(c, "%s", msg)
				t.Fatal(msg)
			}
		}
		return
	}
	verifkit.RapidSetup(60, 3000)
	var totalReads, totalMoved, totalReloc, totalStates, totalStatesFree, totalChurn int64
	defer func() {
		col.Extra("reader_verifications", totalReads)
		col.Extra("reads_overtaken_by_a_relocation", totalMoved)
		col.Extra("relocations_during_reads", totalReloc)
		col.Extra("arena_states_held_and_encoded_during_compaction", totalStates)
		col.Extra("of_which_with_nonempty_freelist", totalStatesFree)
		col.Extra("churn_allocslot_freeslot_calls", totalChurn)
	}()
	rapid.Check(t, func(rt *rapid.T) {
		c := c18CCase{
			VecSize:  rapid.SampledFrom([]int{8, 24, 100, 512}).Draw(rt, "vecsize"),
			PerChunk: rapid.SampledFrom([]int{2, 3, 4, 8}).Draw(rt, "perchunk"),
			N:        rapid.IntRange(12, 96).Draw(rt, "n"),
			Readers:  rapid.IntRange(2, 6).Draw(rt, "readers"),
			Cycles:   rapid.IntRange(1, 3).Draw(rt, "cycles"),
			Steps:    rapid.IntRange(0, 6).Draw(rt, "steps"),
		}
		nf := rapid.IntRange(1, c.N-1).Draw(rt, "nfree")
		c.Free = rapid.SliceOfNDistinct(rapid.Uint32Range(0, uint32(c.N-1)), nf, nf, func(x uint32) uint32 { return x }).Draw(rt, "free")
		c.Snaps = rapid.IntRange(1, 2).Draw(rt, "snaps")
		c.Churn = rapid.SampledFrom([]int{0, 4, 16}).Draw(rt, "churn")
		var st c18CStats
		col.InFlight(c)
		msg, hz := c18RunCCase(c, deadline, &st)
		col.Landed()
		if hz != nil {
			t.Fatalf("harness: %s", hz.msg)
		}
		totalReads += st.reads
		totalMoved += st.movedBetween
		totalReloc += st.relocations
		totalStates += st.states
		totalStatesFree += st.statesWithFree
		totalChurn += st.churnOps
		var labels []string
		if st.statesWithFree > 0 {
			labels = append(labels, "captured-state-with-nonempty-freelist")
		}
		if st.states > 0 && st.relocations > 0 {
			labels = append(labels, "states-held-and-encoded-while-relocating")
		}
		if st.churnOps > 0 {
			labels = append(labels, "allocslot/freeslot-churn")
		}
		if st.relocations > 0 {
			labels = append(labels, "relocations-while-reading")
		}
		if st.movedBetween > 0 {
			labels = append(labels, "read-overtaken-by-relocation")
		}
		if st.timeouts > 0 {
			labels = append(labels, "cycle-stopped-at-deadline")
		}
		chunks := (c.N + c.PerChunk - 1) / c.PerChunk
		col.Case(c, st.relocations > 0 && chunks >= 3, labels...)
		if msg != "" {
			col.Fail(c, "%s", msg)
			rt.Fatalf("%s", msg)
		}
	})
}

// ---------------------------------------------------------------- geometry

type c18GCase struct {
	VecSize int `json:"vec_size"`
	Chunks  int `json:"chunks"` // how many chunks the probed slots span (2..3)
}

const c18ChunkPayload = DefaultChunkSize - ArenaHeaderSize

func c18Marker(id uint32, tail bool, n int) []byte {
	seed := uint32(0xA5A5)
	if tail {
		seed = 0x5A5A
	}
	return c18Pattern(id, seed, n)
}

func c18RunGCase(c c18GCase) (msg string) {
	if c.VecSize < 1 || c.Chunks < 1 || c.Chunks > 4 {
		return ""
	}
	dir, cleanup := verifkit.TempDir("c18geom")
	defer cleanup()
	var va *VectorArena
	defer func() {
		if rec := recover(); rec != nil {
			msg = fmt.Sprintf("panic (vector size %d): %v", c.VecSize, rec)
		}
		if va != nil {
			_ = va.Close()
		}
	}()
	va, err := NewVectorArena(dir, c.VecSize, 7, PrecFloat16)
	if c.VecSize > c18ChunkPayload {
		if err == nil {
			va.Close()
			return fmt.Sprintf("NewVectorArena accepted vector size %d > chunk payload %d", c.VecSize, c18ChunkPayload)
		}
		va = nil
		return ""
	}
	if err != nil {
		return fmt.Sprintf("NewVectorArena(vector size %d) failed: %v", c.VecSize, err)
	}
	per := va.vecsPerChk
	if per < 1 || per > 1<<15 {
		return "" // generator keeps vector sizes >= 2 KiB so that a chunk holds <= 32768 vectors
	}
	total := per * c.Chunks
	for id := 0; id < total; id++ { // fresh arena, no frees: slot == id
		if _, err := va.AllocSlot(uint32(id)); err != nil {
			return fmt.Sprintf("AllocSlot(%d): %v", id, err)
		}
	}
	probe := map[uint32]bool{}
	for k := 0; k < c.Chunks; k++ {
		for _, s := range []int{k * per, k*per + 1, k*per + per/2, (k+1)*per - 2, (k+1)*per - 1} {
			if s >= 0 && s < total {
				probe[uint32(s)] = true
			}
		}
	}
	var ids []uint32
	for id := range probe {
		ids = append(ids, id)
	}
	for i := range ids { // sort
		for j := i + 1; j < len(ids); j++ {
			if ids[j] < ids[i] {
				ids[i], ids[j] = ids[j], ids[i]
			}
		}
	}
	mk := 32
	if c.VecSize < mk {
		mk = c.VecSize
	}
	write := func() string {
		for _, id := range ids {
			b, err := va.GetBytes(id)
			if err != nil {
				return fmt.Sprintf("GetBytes(%d): %v", id, err)
			}
			if len(b) != c.VecSize {
				return fmt.Sprintf("GetBytes(%d) returned %d bytes, want %d", id, len(b), c.VecSize)
			}
			copy(b[:mk], c18Marker(id, false, mk))
			if c.VecSize >= 2*mk {
				copy(b[len(b)-mk:], c18Marker(id, true, mk))
			}
		}
		return ""
	}
	verify := func(when string) string {
		type span struct {
			lo, hi uintptr
			id     uint32
		}
		var spans []span
		for _, id := range ids {
			b, err := va.GetBytes(id)
			if err != nil {
				return fmt.Sprintf("%s: GetBytes(%d): %v", when, id, err)
			}
			if !bytes.Equal(b[:mk], c18Marker(id, false, mk)) {
				return fmt.Sprintf("%s: vector size %d (%d per chunk): head of slot %d reads %x, stored %x", when, c.VecSize, per, id, b[:mk], c18Marker(id, false, mk))
			}
			if c.VecSize >= 2*mk && !bytes.Equal(b[len(b)-mk:], c18Marker(id, true, mk)) {
				return fmt.Sprintf("%s: vector size %d (%d per chunk): tail of slot %d reads %x, stored %x", when, c.VecSize, per, id, b[len(b)-mk:], c18Marker(id, true, mk))
			}
			lo := c18Addr(b)
			spans = append(spans, span{lo, lo + uintptr(len(b)), id})
			// inside the payload of its chunk
			ci := int(id) / per
			base := c18Addr(va.chunks[ci].Data)
			if lo < base+ArenaHeaderSize || lo+uintptr(len(b)) > base+uintptr(len(va.chunks[ci].Data)) {
				return fmt.Sprintf("%s: vector size %d: slot %d occupies chunk bytes [%d,%d) outside the payload [64,%d)", when, c.VecSize, id, lo-base, lo-base+uintptr(len(b)), len(va.chunks[ci].Data))
			}
		}
		for i := range spans {
			for j := i + 1; j < len(spans); j++ {
				if spans[i].lo < spans[j].hi && spans[j].lo < spans[i].hi {
					return fmt.Sprintf("%s: vector size %d: slots %d and %d overlap in memory", when, c.VecSize, spans[i].id, spans[j].id)
				}
			}
		}
		return ""
	}
	if m := write(); m != "" {
		return m
	}
	if m := verify("after writing"); m != "" {
		return m
	}
	st := va.GetState()
	if err := va.Close(); err != nil {
		va = nil
		return fmt.Sprintf("Close: %v", err)
	}
	va, err = NewVectorArena(dir, c.VecSize, 7, PrecFloat16)
	if err != nil {
		va = nil
		return fmt.Sprintf("vector size %d: reopening the arena failed (header damaged?): %v", c.VecSize, err)
	}
	if len(va.chunks) != c.Chunks {
		return fmt.Sprintf("vector size %d: %d chunk files written, %d found at reopen", c.VecSize, c.Chunks, len(va.chunks))
	}
	va.LoadState(st)
	return verify("after close/reopen")
}

func TestVerif_C18_geometry(t *testing.T) {
	c18Quiet()
	col := verifkit.New("C18", "geometry", "rapid: unmodified 64 MiB geometry; vector size from 2 KiB .. payload(64MiB-64) incl. payload/k and payload/k+-1 for k=1..64, powers of two +-1, payload+1 (must be rejected); ids 0..(2|3 chunks) allocated in a fresh arena (slot == id), 32-byte head and tail markers written into the first two, middle and last two slots of every chunk; oracle: all markers read back, slices have the vector size, lie inside the chunk payload [64, 64MiB), are pairwise disjoint, and everything survives GetState/Close/reopen(header validation)/LoadState; non-trivial = vector size is accepted (every accepted case probes both ends of >=2 chunks)")
	defer col.Finish()
	if p := verifkit.ReplayPath(); p != "" {
		if verifkit.ReplayPart(p) != "geometry" {
			return
		}
		var c c18GCase
		if err := verifkit.LoadReplay(p, &c); err != nil {
			t.Fatal(err)
		}
		col.Case(c, true, "replay")
		if msg := c18RunGCase(c); msg != "" {
			col.Fail(c, "%s", msg)
			t.Fatal(msg)
		}
		return
	}
	verifkit.RapidSetup(100, 4000)
	rapid.Check(t, func(rt *rapid.T) {
		var c c18GCase
		c.Chunks = rapid.IntRange(2, 3).Draw(rt, "chunks")
		var label string
		switch rapid.IntRange(0, 4).Draw(rt, "kind") {
		case 0:
			k := rapid.IntRange(1, 64).Draw(rt, "k")
			c.VecSize = c18ChunkPayload/k + rapid.IntRange(-1, 1).Draw(rt, "d")
			label = "payload/k+-1"
		case 1:
			c.VecSize = 1<<rapid.IntRange(11, 25).Draw(rt, "p") + rapid.IntRange(-1, 1).Draw(rt, "d")
			label = "pow2+-1"
		case 2:
			c.VecSize = c18ChunkPayload + rapid.IntRange(0, 2).Draw(rt, "over")
			label = "at-or-over-payload"
		default:
			c.VecSize = rapid.IntRange(2048, c18ChunkPayload).Draw(rt, "vs")
			label = "uniform"
		}
		if c.VecSize < 2048 {
			c.VecSize = 2048
		}
		col.InFlight(c)
		msg := c18RunGCase(c)
		col.Landed()
		col.Case(c, c.VecSize <= c18ChunkPayload, label)
		if msg != "" {
			col.Fail(c, "%s", msg)
			rt.Fatalf("%s", msg)
		}
	})
}
