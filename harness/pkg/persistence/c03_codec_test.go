package persistence

// C03 (a): the log codec is lossless for arbitrary binary arguments.
// FormatCommand -> WriteFrame -> ReadFrame -> ParseCommand must give back the
// command name, the argument count and every argument byte for byte; an absent
// (nil) argument must not turn into content and must not shift later ones.
// ParseCommand / ReadFrame on arbitrary bytes must return or error, never panic.

import (
	"bufio"
	"bytes"
	"encoding/binary"
	"fmt"
	"hash/crc32"
	"io"
	"runtime"
	"strings"
	"testing"

	"github.com/sanonone/kektordb/internal/verifkit"
	"pgregory.net/rapid"
)

var sprintf = fmt.Sprintf

type c03Cmd struct {
	Name string   `json:"name"`
	Args []c03Arg `json:"args"`
}

type c03Arg struct {
	Nil bool   `json:"nil,omitempty"`
	B   []byte `json:"b"`
}

var c03Names = []string{"SET", "DEL", "VCREATE", "VDROP", "VADD", "VDEL", "VMETA", "VCONFIG", "VAUTOLINKS", "GLINK", "GUNLINK", "X", "set", "vAdd"}

var c03Hostile = [][]byte{
	{}, []byte("\r\n"), []byte("\n"), []byte("\r"), {0}, {0xA5}, {0xA5, 0x01, 0, 0, 0, 0, 0, 0, 0, 0},
	[]byte("$-1\r\n"), []byte("$-1"), []byte("*1\r\n$3\r\nSET\r\n"), []byte("$0\r\n\r\n"), []byte("-1"),
	[]byte("*2\r\n"), []byte("$2147483648\r\n"), bytes.Repeat([]byte{0xA5}, 40), []byte("null"), []byte("{}"),
}

func c03GenArg() *rapid.Generator[c03Arg] {
	return rapid.Custom(func(t *rapid.T) c03Arg {
		switch rapid.IntRange(0, 9).Draw(t, "kind") {
		case 0:
			return c03Arg{Nil: true}
		case 1:
			return c03Arg{B: []byte{}}
		case 2, 3:
			return c03Arg{B: append([]byte{}, rapid.SampledFrom(c03Hostile).Draw(t, "hostile")...)}
		case 4:
			n := rapid.IntRange(1, 5000).Draw(t, "n")
			b := rapid.Byte().Draw(t, "fill")
			return c03Arg{B: bytes.Repeat([]byte{b}, n)}
		default:
			return c03Arg{B: rapid.SliceOfN(rapid.Byte(), 0, 64).Draw(t, "bytes")}
		}
	})
}

func c03GenCmd() *rapid.Generator[c03Cmd] {
	return rapid.Custom(func(t *rapid.T) c03Cmd {
		return c03Cmd{
			Name: rapid.SampledFrom(c03Names).Draw(t, "name"),
			Args: rapid.SliceOfN(c03GenArg(), 0, 8).Draw(t, "args"),
		}
	})
}

// c03RoundTrip returns "" when the command list survives the codec.
func c03RoundTrip(cmds []c03Cmd) string {
	var file bytes.Buffer
	fw := NewFrameWriter(&file)
	for _, c := range cmds {
		args := make([][]byte, len(c.Args))
		for i, a := range c.Args {
			if a.Nil {
				args[i] = nil
			} else if a.B == nil {
				args[i] = []byte{}
			} else {
				args[i] = a.B
			}
		}
		payload := FormatCommand(c.Name, args...)
		if err := fw.WriteFrame([]byte(payload)); err != nil {
			return "WriteFrame: " + err.Error()
		}
	}
	r := bytes.NewReader(file.Bytes())
	total := 0
	for i, c := range cmds {
		payload, n, err := ReadFrame(r)
		if err != nil {
			return sprintf("cmd %d: ReadFrame: %v", i, err)
		}
		total += n
		got, err := ParseCommand(bufio.NewReader(bytes.NewReader(payload)))
		if err != nil {
			return sprintf("cmd %d (%s, %d args): ParseCommand rejected what FormatCommand wrote: %v", i, c.Name, len(c.Args), err)
		}
		if got.Name != strings.ToUpper(c.Name) {
			return sprintf("cmd %d: name %q, want %q", i, got.Name, strings.ToUpper(c.Name))
		}
		if len(got.Args) != len(c.Args) {
			return sprintf("cmd %d: %d args, want %d", i, len(got.Args), len(c.Args))
		}
		for j, a := range c.Args {
			if a.Nil {
				// absent must not become content
				if len(got.Args[j]) != 0 {
					return sprintf("cmd %d arg %d: nil came back as %q", i, j, got.Args[j])
				}
				continue
			}
			if !bytes.Equal(got.Args[j], a.B) {
				return sprintf("cmd %d arg %d: got %q want %q", i, j, got.Args[j], a.B)
			}
		}
	}
	if total != file.Len() {
		return sprintf("frames consumed %d bytes of %d", total, file.Len())
	}
	if _, _, err := ReadFrame(r); err != io.EOF {
		return sprintf("expected clean EOF after last frame, got %v", err)
	}
	return ""
}

func TestVerif_C03_codec(t *testing.T) {
	col := verifkit.New("C03", "codec", "rapid-generated lists of 1-4 commands (name x 0-8 args each nil/empty/hostile constant/long run/random bytes) through FormatCommand->WriteFrame->ReadFrame->ParseCommand; non-trivial = at least one nil, empty or binary (CR/LF/NUL/0xA5) argument")
	defer col.Finish()
	if p := verifkit.ReplayPath(); p != "" {
		if verifkit.ReplayPart(p) != "codec" {
			return
		}
		var cmds []c03Cmd
		if err := verifkit.LoadReplay(p, &cmds); err != nil {
			t.Fatalf("replay: %v", err)
		}
		if msg := c03RoundTrip(cmds); msg != "" {
			col.Fail(cmds, "%s", msg)
			t.Fatal(msg)
		}
		col.Case(cmds, true, "replay")
		return
	}
	verifkit.RapidSetup(20000, 400000)
	rapid.Check(t, func(rt *rapid.T) {
		cmds := rapid.SliceOfN(c03GenCmd(), 1, 4).Draw(rt, "cmds")
		nt := false
		var labels []string
		seen := map[string]bool{}
		for _, c := range cmds {
			if len(c.Args) == 0 && !seen["zero-args"] {
				seen["zero-args"] = true
			}
			for _, a := range c.Args {
				switch {
				case a.Nil:
					seen["nil-arg"] = true
					nt = true
				case len(a.B) == 0:
					seen["empty-arg"] = true
					nt = true
				case bytes.ContainsAny(a.B, "\r\n\x00\xa5"):
					seen["binary-arg"] = true
					nt = true
				}
			}
		}
		for l := range seen {
			labels = append(labels, l)
		}
		col.Case(cmds, nt, labels...)
		if msg := c03RoundTrip(cmds); msg != "" {
			col.Fail(cmds, "%s", msg)
			rt.Fatalf("%s", msg)
		}
	})
}

// --- arbitrary bytes into the decoders: total, bounded ---

type c03Raw struct {
	B []byte `json:"b"`
}

var c03RawSeeds = [][]byte{
	[]byte("*1\r\n$3\r\nSET\r\n"), []byte("*2\r\n$3\r\nDEL\r\n$-1\r\n"), []byte("*1000001\r\n"), []byte("*1000000\r\n"),
	[]byte("*1\r\n$2147483648\r\n"), []byte("*1\r\n$1073741825\r\nx"), []byte("*0\r\n"), []byte("*-1\r\n"), []byte("*1\r\n$-2\r\n"),
	[]byte("*\r\n"), []byte("\r\n"), []byte("*1\r\n$\r\n"), []byte("*1\r\n$1\r\n"), []byte("*1\r\n$1\r\nab"), []byte("*3\r\n$1\r\na\r\n"),
	[]byte("* 1\r\n$ 1\r\na\r\n"), []byte("*+1\r\n$+1\r\na\r\n"), []byte("*01\r\n$01\r\na\r\n"),
}

func c03DecodeTotal(b []byte) (msg string) {
	defer func() {
		if r := recover(); r != nil {
			msg = sprintf("panic: %v", r)
		}
	}()
	var before, after runtime.MemStats
	runtime.ReadMemStats(&before)
	cmd, err := ParseCommand(bufio.NewReader(bytes.NewReader(b)))
	runtime.ReadMemStats(&after)
	if err == nil {
		if cmd == nil {
			return "ParseCommand returned nil,nil"
		}
		// whatever was parsed must be re-encodable to something that parses to the same thing
		re := FormatCommand(cmd.Name, cmd.Args...)
		cmd2, err2 := ParseCommand(bufio.NewReader(strings.NewReader(re)))
		if err2 != nil {
			return sprintf("re-encoding of a parsed command does not parse: %v", err2)
		}
		if cmd2.Name != cmd.Name || len(cmd2.Args) != len(cmd.Args) {
			return "re-encoded command differs"
		}
		for i := range cmd.Args {
			if !bytes.Equal(cmd.Args[i], cmd2.Args[i]) {
				return sprintf("re-encoded arg %d differs", i)
			}
		}
	}
	// Bounded allocation: the documented caps are 1e6 args (24 B slice header each) and 1 GiB per
	// argument; the generator here never declares more than 16 MiB, so anything above 64 MiB + 24 MB
	// of slice headers means an unbounded allocation.
	if grew := after.TotalAlloc - before.TotalAlloc; grew > (64<<20)+(24<<20)+uint64(4*len(b)) {
		return sprintf("ParseCommand allocated %d bytes for a %d-byte input", grew, len(b))
	}
	// ReadFrame on the same bytes
	func() {
		_, n, err := ReadFrame(bytes.NewReader(b))
		if err == nil && n > len(b) {
			msg = sprintf("ReadFrame consumed %d > %d bytes", n, len(b))
		}
	}()
	return msg
}

func c03DeclaresHuge(b []byte) bool {
	// skip inputs that *declare* a bulk length >= 16 MiB (legal under the 1 GiB cap; they only burn memory)
	for i := 0; i < len(b); i++ {
		if b[i] == '$' {
			n := 0
			digits := 0
			j := i + 1
			for j < len(b) && (b[j] == '+' || b[j] == ' ') {
				j++
			}
			for ; j < len(b) && b[j] >= '0' && b[j] <= '9' && digits < 12; j++ {
				n = n*10 + int(b[j]-'0')
				digits++
			}
			if n >= 16<<20 && n <= MaxPayloadSize {
				return true
			}
		}
	}
	if len(b) >= HeaderSize && b[0] == MagicByte {
		l := binary.LittleEndian.Uint32(b[2:6])
		if l >= 16<<20 && l <= MaxPayloadSize {
			return true
		}
	}
	return false
}

func TestVerif_C03_decoders(t *testing.T) {
	col := verifkit.New("C03", "decoders", "arbitrary byte strings (mutated valid RESP, hostile constants, random) into ParseCommand and ReadFrame: must return or error, never panic, never allocate beyond the documented caps; parsed commands re-encode to themselves; non-trivial = input starts with '*' or the frame magic")
	defer col.Finish()
	if p := verifkit.ReplayPath(); p != "" {
		if verifkit.ReplayPart(p) != "decoders" {
			return
		}
		var c c03Raw
		if err := verifkit.LoadReplay(p, &c); err != nil {
			t.Fatalf("replay: %v", err)
		}
		if msg := c03DecodeTotal(c.B); msg != "" {
			col.Fail(c, "%s", msg)
			t.Fatal(msg)
		}
		col.Case(c, true, "replay")
		return
	}
	verifkit.RapidSetup(20000, 400000)
	rapid.Check(t, func(rt *rapid.T) {
		var b []byte
		switch rapid.IntRange(0, 4).Draw(rt, "kind") {
		case 0:
			b = rapid.SliceOfN(rapid.Byte(), 0, 200).Draw(rt, "raw")
		case 1:
			b = append([]byte{}, rapid.SampledFrom(c03RawSeeds).Draw(rt, "seed")...)
			b = append(b, rapid.SliceOfN(rapid.Byte(), 0, 30).Draw(rt, "tail")...)
		case 2:
			// valid command then mutate a few bytes
			c := c03GenCmd().Draw(rt, "cmd")
			args := make([][]byte, len(c.Args))
			for i, a := range c.Args {
				if !a.Nil {
					args[i] = a.B
					if args[i] == nil {
						args[i] = []byte{}
					}
				}
			}
			b = []byte(FormatCommand(c.Name, args...))
			for k := rapid.IntRange(0, 3).Draw(rt, "nmut"); k > 0 && len(b) > 0; k-- {
				pos := rapid.IntRange(0, len(b)-1).Draw(rt, "pos")
				b[pos] = rapid.Byte().Draw(rt, "val")
			}
		case 3:
			// frame header with hostile length and arbitrary rest
			b = make([]byte, HeaderSize)
			b[0] = MagicByte
			b[1] = rapid.Byte().Draw(rt, "op")
			binary.LittleEndian.PutUint32(b[2:6], rapid.SampledFrom([]uint32{0, 1, 9, 10, 11, 0xFFFFFFFF, 1 << 30, 1<<30 + 1, 1<<30 - 1, 0x80000000}).Draw(rt, "len"))
			pl := rapid.SliceOfN(rapid.Byte(), 0, 20).Draw(rt, "pl")
			binary.LittleEndian.PutUint32(b[6:10], crc32.ChecksumIEEE(pl))
			b = append(b, pl...)
		default:
			n := rapid.SampledFrom([]int{999999, 1000000, 1000001, 5, 70000}).Draw(rt, "n")
			b = []byte(sprintf("*%d\r\n", n))
			b = append(b, bytes.Repeat([]byte("$0\r\n\r\n"), rapid.IntRange(0, 50).Draw(rt, "rep"))...)
		}
		if c03DeclaresHuge(b) {
			col.Label("skipped-declares-16MiB+", 1)
			return
		}
		c := c03Raw{B: b}
		nt := len(b) > 0 && (b[0] == '*' || b[0] == MagicByte)
		col.Case(c, nt)
		if msg := c03DecodeTotal(b); msg != "" {
			col.Fail(c, "%s", msg)
			rt.Fatalf("%s", msg)
		}
	})
}
