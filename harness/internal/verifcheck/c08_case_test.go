package verifcheck

// C08 — metadata filters select exactly the matching live vectors.
//
// This file: the case representation (pure data), the rapid generator, the
// renderer filter-AST -> text and the model of the current metadata.

import (
	"sort"
	"strconv"
	"strings"

	"pgregory.net/rapid"
)

const c08Index = "ix"

// c08Op is one step of a history. Kinds:
//
//	add      VAdd(ix, ID, Vec, Meta)            (skipped when ID is live)
//	batch    VAddBatch(ix, Items)               (skipped unless every item id is distinct and not live)
//	import   VImport(ix, Items) + SaveSnapshot  (the synchronous half of VImportCommit; same applicability)
//	set      VSetMetadata(ix, ID, Meta) = merge (skipped when ID is not live)
//	del      VDelete(ix, ID)                    (skipped when ID is not live)
//	vacuum   VTriggerMaintenance(ix, "vacuum")
//	snapshot SaveSnapshot()
//	rewrite  RewriteAOF()
//	compress VCompress(ix, "float16")           (skipped when the index is empty or already compressed)
//	restart  Close() + Open()
//
// After every executed step all filters of the case are evaluated (except after Quiet steps: the
// warm-up adds that only bring the index to the size at which batches take the parallel insert path).
type c08Op struct {
	K     string         `json:"k"`
	ID    string         `json:"id,omitempty"`
	Vec   []float32      `json:"vec,omitempty"`
	Meta  map[string]any `json:"meta,omitempty"`
	Items []c08Item      `json:"items,omitempty"`
	Quiet bool           `json:"quiet,omitempty"`
}

// c08Item is one element of a batch / import. An empty Meta is handed over as a nil map.
type c08Item struct {
	ID   string         `json:"id"`
	Vec  []float32      `json:"vec"`
	Meta map[string]any `json:"meta,omitempty"`
}

// c08Clause is `Key Op Lit`; Q is the quote character around the literal ("" = unquoted);
// Sp selects the spacing around the operator.
type c08Clause struct {
	Key string `json:"key"`
	Op  string `json:"op"`
	Lit string `json:"lit"`
	Q   string `json:"q"`
	Sp  int    `json:"sp"`
}

// c08Filter is an OR of AND-blocks, rendered without parentheses (OR binds weaker than AND).
type c08Filter struct {
	Blocks [][]c08Clause `json:"or_of_and"`
	And    string        `json:"and_kw"` // keyword spelling, e.g. "AND", "and", "And"
	Or     string        `json:"or_kw"`
	Wide   bool          `json:"wide"` // extra white space around keywords and at both ends
}

type c08Case struct {
	Ops     []c08Op     `json:"ops"`
	Filters []c08Filter `json:"filters"`
	Query   []float32   `json:"query"`
	// GoInt: integral numbers are handed to the embedded API as Go int instead of the JSON
	// number type float64. Outside the documented (JSON-typed) domain: reported, not asserted.
	GoInt bool `json:"go_int,omitempty"`
	// EfC: ef_construction of the index (0 = the default 200). VAddBatch inserts one by one while the
	// index has handed out fewer than ef_construction internal ids and in parallel afterwards
	// (VImport: max(40, 2*M) ids), so a small value makes the parallel path reachable by short histories.
	EfC int `json:"efc,omitempty"`
}

func (c c08Case) efC() int {
	if c.EfC > 0 {
		return c.EfC
	}
	return 200
}

const c08M = 16               // M of the index
const c08ImportThreshold = 40 // max(40, 2*M): size from which VImport inserts in parallel

// ---------------------------------------------------------------- rendering

func c08RenderClause(c c08Clause) string {
	lit := c.Q + c.Lit + c.Q
	switch c.Sp {
	case 1:
		return c.Key + " " + c.Op + " " + lit
	case 2:
		return c.Key + c.Op + " " + lit
	case 3:
		return c.Key + "  " + c.Op + "\t" + lit
	}
	return c.Key + c.Op + lit
}

func c08Render(f c08Filter) string {
	and, or := " "+f.And+" ", " "+f.Or+" "
	if f.Wide {
		and, or = "  "+f.And+"\t", " \t"+f.Or+"  "
	}
	var blocks []string
	for _, b := range f.Blocks {
		var cl []string
		for _, c := range b {
			cl = append(cl, c08RenderClause(c))
		}
		blocks = append(blocks, strings.Join(cl, and))
	}
	s := strings.Join(blocks, or)
	if f.Wide {
		s = "  " + s + " "
	}
	return s
}

func c08NumClauses(f c08Filter) int {
	n := 0
	for _, b := range f.Blocks {
		n += len(b)
	}
	return n
}

// ---------------------------------------------------------------- value pools

var c08IDs = []string{"a", "b", "c", "d", "e", "f", "g", "h"}

// ids that only batches / imports hand out (together with the non-live ids above), and the warm-up ids
var c08BatchIDs = []string{"p", "q", "r", "s", "t", "u"}

func c08WarmID(i int) string { return "w" + strconv.Itoa(i/10) + strconv.Itoa(i%10) }

// keys with a preferred type (so that equal keys mostly carry comparable values) — every key can
// still receive every type, which is what produces type-changing overwrites.
var c08Keys = []string{"cat", "num", "ok", "tags", "mix"}
var c08KeyPref = map[string]int{"cat": 0, "num": 1, "ok": 2, "tags": 3, "mix": -1}

// strings: plain words, case variants, an inner space, numeric-looking and boolean-looking
// strings, operator characters (legal inside quotes), non-ASCII, the empty string.
// None contains a quote, and none contains / is the word AND / OR.
var c08Strs = []string{"red", "blue", "Red", "a b", "10", "2.5", "true", "x-1", "caffè", "a<=b", ""}
var c08Nums = []float64{0, 1, 2.5, 10, -3, 1000, 0.1, 7}
var c08ListElems = []string{"red", "blue", "go", "10", "true", "a b"}

// non-string list elements (JSON numbers and booleans). The numbers are all in the range in which every
// usual rendering of a float64 (strconv 'g' / 'f', fmt %v, encoding/json) gives the same plain decimal text.
var c08ListNums = []float64{10, 20, 1, 2.5, 0, -3, 7, 1000}

// numeric literals as filter text: canonical and alternative spellings, plus thresholds between the values
var c08NumLits = []string{"0", "1", "2.5", "2.50", "10", "10.0", "1e1", "-3", "-3.0", "1000", "1e3", "0.1", "7", "5", "2", "-1", "100"}

func c08Bare(s string) bool { // may the literal be written without quotes?
	if s == "" {
		return false
	}
	for _, r := range s {
		ok := r == '_' || r == '-' || r == '.' || (r >= '0' && r <= '9') || (r >= 'a' && r <= 'z') || (r >= 'A' && r <= 'Z') || r > 127
		if !ok {
			return false
		}
	}
	return true
}

func c08GenValue(t *rapid.T, key string, lists bool) any {
	kind := c08KeyPref[key]
	if kind < 0 || rapid.IntRange(0, 99).Draw(t, "offtype") < 35 {
		kind = rapid.SampledFrom([]int{0, 1, 2, 3}).Draw(t, "kind")
	}
	if kind == 3 && !lists {
		kind = 0
	}
	switch kind {
	case 0:
		return rapid.SampledFrom(c08Strs).Draw(t, "str")
	case 1:
		return rapid.SampledFrom(c08Nums).Draw(t, "num")
	case 2:
		return rapid.Bool().Draw(t, "bool")
	}
	n := rapid.IntRange(0, 3).Draw(t, "listlen")
	l := make([]any, 0, n)
	// element class of this list: strings only / numbers only / booleans only / anything
	class := rapid.SampledFrom([]int{0, 0, 0, 1, 1, 2, 3, 3}).Draw(t, "listclass")
	for i := 0; i < n; i++ {
		ek := class
		if class == 3 {
			ek = rapid.IntRange(0, 2).Draw(t, "elemkind")
		}
		l = append(l, c08GenElem(t, ek))
	}
	return l
}

// c08GenElem: one list element, 0 = string, 1 = JSON number, 2 = boolean.
func c08GenElem(t *rapid.T, kind int) any {
	switch kind {
	case 1:
		return rapid.SampledFrom(c08ListNums).Draw(t, "elemnum")
	case 2:
		return rapid.Bool().Draw(t, "elembool")
	}
	return rapid.SampledFrom(c08ListElems).Draw(t, "elem")
}

// c08Twin: in a "twin" case one key keeps receiving the SAME literal in its different representations
// (the string "10", the number 10, a list holding "10") on different vectors, so that the posting list and
// the number index of that literal are populated at the same time.
type c08Twin struct {
	Key string
	Str string
	Val any // float64 or bool
}

var c08Twins = []c08Twin{{Str: "10", Val: 10.0}, {Str: "2.5", Val: 2.5}, {Str: "true", Val: true}, {Str: "0", Val: 0.0}}

func c08GenMeta(t *rapid.T, min int, lists bool, twin *c08Twin) map[string]any {
	n := rapid.SampledFrom([]int{0, 1, 2, 2, 3, 3, 4}).Draw(t, "nkeys")
	if n < min {
		n = min
	}
	m := map[string]any{}
	for i := 0; i < n; i++ {
		k := rapid.SampledFrom(c08Keys).Draw(t, "key")
		if twin != nil && (i == 0 || k == twin.Key) && rapid.IntRange(0, 99).Draw(t, "twinval") < 60 {
			k = twin.Key
			switch rapid.IntRange(0, 4).Draw(t, "twinrep") {
			case 0, 1:
				m[k] = twin.Str
			case 2, 3:
				m[k] = twin.Val
			default:
				m[k] = twin.Str
				if lists {
					// the literal as a list element: as a string, in its own type, or both (plus a bystander)
					switch rapid.IntRange(0, 3).Draw(t, "twinlist") {
					case 0:
						m[k] = []any{twin.Str}
					case 1:
						m[k] = []any{twin.Val}
					case 2:
						m[k] = []any{c08GenElem(t, rapid.IntRange(0, 2).Draw(t, "elemkind")), twin.Val}
					default:
						m[k] = []any{twin.Str, twin.Val}
					}
				}
			}
			continue
		}
		m[k] = c08GenValue(t, k, lists)
	}
	return m
}

// c08Seen is one (key, value) pair that occurs in the history; filters prefer literals that
// can actually match.
type c08Seen struct {
	Key string
	Val any
}

func c08NumSpellings(f float64) []string {
	out := []string{c08FmtNum(f)}
	switch f {
	case 10:
		out = append(out, "10.0", "1e1")
	case 2.5:
		out = append(out, "2.50")
	case -3:
		out = append(out, "-3.0")
	case 1000:
		out = append(out, "1e3")
	case 0:
		out = append(out, "0.0")
	}
	return out
}

// c08ClauseFromSeen builds a clause about a (key, value) pair of the history.
func c08ClauseFromSeen(t *rapid.T, sv c08Seen) c08Clause {
	c := c08Clause{Key: sv.Key, Sp: rapid.IntRange(0, 3).Draw(t, "sp")}
	q := rapid.SampledFrom([]string{"'", "'", "\""}).Draw(t, "quote")
	c.Op = rapid.SampledFrom([]string{"=", "=", "=", "!="}).Draw(t, "eqop")
	str := func(s string) {
		c.Lit, c.Q = s, q
		if c08Bare(s) && rapid.IntRange(0, 99).Draw(t, "bare") < 30 {
			c.Q = ""
		}
	}
	val := sv.Val
	if l, ok := val.([]any); ok { // a list: ask about one of its elements (membership)
		if len(l) == 0 {
			str(rapid.SampledFrom(c08ListElems).Draw(t, "elemlit"))
			return c
		}
		val = rapid.SampledFrom(l).Draw(t, "elemof")
		if f, isNum := val.(float64); isNum && rapid.IntRange(0, 99).Draw(t, "elemcanon") < 60 {
			c.Lit = c08FmtNum(f) // mostly the plain spelling of a numeric element, unquoted
			return c
		}
	}
	switch v := val.(type) {
	case string:
		str(v)
	case float64:
		if rapid.IntRange(0, 99).Draw(t, "range") < 50 {
			c.Op = rapid.SampledFrom([]string{"<", "<=", ">", ">="}).Draw(t, "rangeop")
			// threshold at the value or next to it
			c.Lit = rapid.SampledFrom(append(c08NumSpellings(v), c08FmtNum(v-1), c08FmtNum(v+0.5))).Draw(t, "thr")
			return c
		}
		c.Lit = rapid.SampledFrom(c08NumSpellings(v)).Draw(t, "numlit")
		if rapid.IntRange(0, 99).Draw(t, "qnum") < 15 {
			c.Q = q
		}
	case bool:
		c.Lit = "false"
		if v {
			c.Lit = "true"
		}
		if rapid.IntRange(0, 99).Draw(t, "qbool") < 40 {
			c.Q = q
		}
	}
	return c
}

func c08GenClause(t *rapid.T, seen []c08Seen) c08Clause {
	if len(seen) > 0 && rapid.IntRange(0, 99).Draw(t, "fromseen") < 65 {
		return c08ClauseFromSeen(t, rapid.SampledFrom(seen).Draw(t, "seen"))
	}
	keys := append(append([]string{}, c08Keys...), "zz") // "zz" is never present
	c := c08Clause{Key: rapid.SampledFrom(keys).Draw(t, "fkey"), Sp: rapid.IntRange(0, 3).Draw(t, "sp")}
	c.Op = rapid.SampledFrom([]string{"=", "=", "=", "=", "!=", "!=", "!=", "<", "<=", ">", ">="}).Draw(t, "op")
	if c.Op != "=" && c.Op != "!=" {
		c.Lit = rapid.SampledFrom(c08NumLits).Draw(t, "numlit") // ranges: unquoted numeric literal
		return c
	}
	kind := c08KeyPref[c.Key]
	if kind < 0 || kind == 3 || rapid.IntRange(0, 99).Draw(t, "offlit") < 30 {
		kind = rapid.IntRange(0, 2).Draw(t, "litkind")
		if c08KeyPref[c.Key] == 3 && kind != 0 && rapid.Bool().Draw(t, "listbias") {
			kind = 0
		}
	}
	q := rapid.SampledFrom([]string{"'", "'", "\""}).Draw(t, "quote")
	switch kind {
	case 0:
		pool := c08Strs
		if c08KeyPref[c.Key] == 3 {
			pool = c08ListElems
		}
		c.Lit = rapid.SampledFrom(pool).Draw(t, "strlit")
		c.Q = q
		if c08Bare(c.Lit) && rapid.IntRange(0, 99).Draw(t, "bare") < 30 {
			c.Q = ""
		}
	case 1:
		c.Lit = rapid.SampledFrom(c08NumLits).Draw(t, "numlit")
		if rapid.IntRange(0, 99).Draw(t, "qnum") < 20 {
			c.Q = q
		}
	default:
		c.Lit = rapid.SampledFrom([]string{"true", "false"}).Draw(t, "boollit")
		if rapid.IntRange(0, 99).Draw(t, "qbool") < 40 {
			c.Q = q
		}
	}
	return c
}

func c08GenVec(t *rapid.T) []float32 {
	v := make([]float32, 3)
	for i := range v {
		v[i] = float32(rapid.IntRange(-4, 4).Draw(t, "x"))
	}
	return v
}

// c08Raw is a drawn, state-independent op: Pick is resolved against the set of live ids by
// c08Resolve. Drawing the history as a plain slice of such ops lets rapid shrink it by deleting
// elements; the saved case contains the resolved (concrete) ops only.
type c08Raw struct {
	K     string
	Pick  int
	Vec   []float32
	Meta  map[string]any
	Items []c08Item // batch / import: vectors and metadata, ids are assigned by c08Resolve
	ID    string    // add: fixed id (warm-up)
	Quiet bool
}

var c08Tails = [][]string{
	{},
	{"restart"},
	{"snapshot", "restart"},
	{"rewrite", "restart"},
	{"compress"},
	{"compress", "restart"},
	{"restart", "snapshot", "restart", "rewrite", "restart", "compress", "restart"},
}

// c08Resolve turns raw ops into concrete ones: set/del address the Pick-th live id (an add is
// substituted while nothing is live), add takes the Pick-th id that is not live — ids deleted
// earlier first, so re-adds are frequent. Ops that cannot apply are dropped.
func c08Resolve(raw []c08Raw) []c08Op {
	m := c08NewModel()
	dead := map[string]bool{}
	var out []c08Op
	for _, r := range raw {
		op := c08Op{K: r.K}
		if (r.K == "set" || r.K == "del") && len(m.Live) == 0 {
			op.K = "add"
		}
		switch op.K {
		case "add":
			var cand []string
			for _, id := range c08IDs {
				if m.Live[id] == nil && dead[id] {
					cand = append(cand, id)
				}
			}
			for _, id := range c08IDs {
				if m.Live[id] == nil && !dead[id] {
					cand = append(cand, id)
				}
			}
			if len(cand) == 0 && r.ID == "" {
				continue
			}
			if r.ID != "" {
				op.ID, op.Quiet = r.ID, r.Quiet
			} else if r.Pick%3 == 0 { // a third of the adds prefer a deleted id, the others a fresh one
				op.ID = cand[0]
			} else {
				op.ID = cand[len(cand)-1-(r.Pick%len(cand))]
			}
			op.Vec, op.Meta = r.Vec, r.Meta
			if op.Meta == nil {
				op.Meta = map[string]any{}
			}
		case "batch", "import":
			// the items take non-live ids (deleted ones included: re-add through a batch), starting at the Pick-th
			var cand []string
			for _, id := range c08IDs {
				if m.Live[id] == nil {
					cand = append(cand, id)
				}
			}
			for _, id := range c08BatchIDs {
				if m.Live[id] == nil {
					cand = append(cand, id)
				}
			}
			for j, it := range r.Items {
				if j >= len(cand) {
					break
				}
				op.Items = append(op.Items, c08Item{ID: cand[(r.Pick+j)%len(cand)], Vec: it.Vec, Meta: it.Meta})
			}
		case "set", "del":
			ids := m.ids()
			op.ID = ids[r.Pick%len(ids)]
			if op.K == "set" {
				op.Meta = r.Meta
				if len(op.Meta) == 0 {
					continue
				}
			} else {
				dead[op.ID] = true
			}
		}
		if !m.applicable(op) {
			continue
		}
		m.apply(op)
		out = append(out, op)
	}
	return out
}

// c08GenCase draws a history + filters.
func c08GenCase() *rapid.Generator[c08Case] {
	return rapid.Custom(func(t *rapid.T) c08Case {
		var c c08Case
		lists := rapid.IntRange(0, 9).Draw(t, "lists") >= 5 // list-valued fields in about half of the cases
		var twin *c08Twin
		if rapid.IntRange(0, 3).Draw(t, "twincase") == 0 {
			tw := c08Twins[rapid.IntRange(0, len(c08Twins)-1).Draw(t, "twin")]
			tw.Key = rapid.SampledFrom(c08Keys).Draw(t, "twinkey")
			if tw.Key == "tags" && !lists {
				tw.Key = "mix"
			}
			twin = &tw
		}
		// index size class: ef_construction 200 (every batch of a short history is inserted one by one) or 8,
		// alone (the history itself has to hand out 8 ids first) or with a warm-up of single adds that crosses
		// the threshold of VAddBatch (9 > 8) or of VImport (41 > 40) before the generated history starts
		size := rapid.SampledFrom([][2]int{{0, 0}, {0, 0}, {0, 0}, {8, 0}, {8, 9}, {8, 9}, {8, 9}, {8, 41}}).Draw(t, "size")
		c.EfC = size[0]
		kinds := []string{"add", "add", "add", "add", "batch", "batch", "set", "set", "set", "set", "set", "del", "del", "vacuum", "import", "snapshot", "rewrite", "compress", "restart", "restart"}
		rawOp := rapid.Custom(func(t *rapid.T) c08Raw {
			r := c08Raw{K: rapid.SampledFrom(kinds).Draw(t, "opkind")}
			switch r.K {
			case "add":
				r.Pick = rapid.IntRange(0, 23).Draw(t, "pick")
				r.Vec = c08GenVec(t)
				r.Meta = c08GenMeta(t, 0, lists, twin)
			case "set":
				r.Pick = rapid.IntRange(0, 23).Draw(t, "pick")
				r.Meta = c08GenMeta(t, 1, lists, twin)
			case "del":
				r.Pick = rapid.IntRange(0, 23).Draw(t, "pick")
			case "batch", "import":
				r.Pick = rapid.IntRange(0, 23).Draw(t, "pick")
				n := rapid.SampledFrom([]int{1, 2, 2, 3, 3, 4, 5}).Draw(t, "nitems")
				for i := 0; i < n; i++ {
					r.Items = append(r.Items, c08Item{Vec: c08GenVec(t), Meta: c08GenMeta(t, 0, lists, twin)})
				}
			}
			return r
		})
		addOp := rapid.Custom(func(t *rapid.T) c08Raw {
			return c08Raw{K: "add", Pick: rapid.IntRange(0, 23).Draw(t, "pick"), Vec: c08GenVec(t), Meta: c08GenMeta(t, 1, lists, twin)}
		})
		var raw []c08Raw
		for i := 0; i < size[1]; i++ { // warm-up: filters are evaluated after its last add only
			raw = append(raw, c08Raw{K: "add", ID: c08WarmID(i), Quiet: i < size[1]-1, Vec: c08GenVec(t), Meta: c08GenMeta(t, 0, lists, twin)})
		}
		raw = append(raw, rapid.SliceOfN(addOp, 2, 8).Draw(t, "init")...) // something to select from
		raw = append(raw, rapid.SliceOfN(rawOp, 3, 24).Draw(t, "ops")...)
		for _, k := range c08Tails[rapid.IntRange(0, len(c08Tails)-1).Draw(t, "tail")] {
			raw = append(raw, c08Raw{K: k})
		}
		c.Ops = c08Resolve(raw)

		var seen []c08Seen
		for _, op := range c.Ops {
			var ks []string
			for k := range op.Meta {
				ks = append(ks, k)
			}
			sort.Strings(ks)
			for _, k := range ks {
				seen = append(seen, c08Seen{k, op.Meta[k]})
			}
			for _, it := range op.Items {
				ks = ks[:0]
				for k := range it.Meta {
					ks = append(ks, k)
				}
				sort.Strings(ks)
				for _, k := range ks {
					seen = append(seen, c08Seen{k, it.Meta[k]})
				}
			}
		}
		clause := rapid.Custom(func(t *rapid.T) c08Clause { return c08GenClause(t, seen) })
		filter := rapid.Custom(func(t *rapid.T) c08Filter {
			return c08Filter{
				Blocks: rapid.SliceOfN(rapid.SliceOfN(clause, 1, 3), 1, 3).Draw(t, "blocks"),
				And:    rapid.SampledFrom([]string{"AND", "AND", "and", "And", "aNd"}).Draw(t, "andkw"),
				Or:     rapid.SampledFrom([]string{"OR", "OR", "or", "Or", "oR"}).Draw(t, "orkw"),
				Wide:   rapid.IntRange(0, 4).Draw(t, "wide") == 4,
			}
		})
		c.Filters = rapid.SliceOfN(filter, 1, 4).Draw(t, "filters")
		if twin != nil {
			// a twin case always asks about the twin literal itself, bare or quoted, positively or negatively
			cl := c08Clause{Key: twin.Key, Lit: twin.Str, Sp: rapid.IntRange(0, 3).Draw(t, "twinsp"),
				Op: rapid.SampledFrom([]string{"!=", "!=", "="}).Draw(t, "twinop"),
				Q:  rapid.SampledFrom([]string{"", "", "'"}).Draw(t, "twinq")}
			c.Filters = append([]c08Filter{{Blocks: [][]c08Clause{{cl}}, And: "AND", Or: "OR"}}, c.Filters...)
		}
		c.Query = c08GenVec(t)
		c.Query[0] += 0.5 // never the zero vector
		c.GoInt = rapid.IntRange(0, 19).Draw(t, "goint") == 7
		return c
	})
}

// ---------------------------------------------------------------- model of the current metadata

type c08Model struct {
	Live       map[string]map[string]any
	Compressed bool
	Version    int // bumped by every op that changes the metadata state
}

func c08NewModel() *c08Model { return &c08Model{Live: map[string]map[string]any{}} }

func (m *c08Model) applicable(op c08Op) bool {
	switch op.K {
	case "add":
		return m.Live[op.ID] == nil && op.ID != "" && len(op.Vec) == 3
	case "set", "del":
		return m.Live[op.ID] != nil
	case "batch", "import":
		ids := map[string]bool{}
		for _, it := range op.Items {
			if it.ID == "" || len(it.Vec) != 3 || m.Live[it.ID] != nil || ids[it.ID] {
				return false
			}
			ids[it.ID] = true
		}
		return len(op.Items) > 0
	case "compress":
		return !m.Compressed && len(m.Live) > 0
	case "vacuum", "snapshot", "rewrite", "restart":
		return true
	}
	return false
}

func c08CloneMeta(in map[string]any) map[string]any {
	out := make(map[string]any, len(in))
	for k, v := range in {
		if l, ok := v.([]any); ok {
			v = append([]any{}, l...)
		}
		out[k] = v
	}
	return out
}

func (m *c08Model) apply(op c08Op) {
	switch op.K {
	case "add":
		m.Live[op.ID] = c08CloneMeta(op.Meta)
		m.Version++
	case "batch", "import":
		for _, it := range op.Items {
			m.Live[it.ID] = c08CloneMeta(it.Meta)
		}
		m.Version++
	case "set":
		for k, v := range c08CloneMeta(op.Meta) {
			m.Live[op.ID][k] = v
		}
		m.Version++
	case "del":
		delete(m.Live, op.ID)
		m.Version++
	case "compress":
		m.Compressed = true
	}
}

func (m *c08Model) ids() []string {
	out := make([]string, 0, len(m.Live))
	for id := range m.Live {
		out = append(out, id)
	}
	sort.Strings(out)
	return out
}

// c08ListClass: "" = not a list or an empty one; otherwise which element types the list holds.
func c08ListClass(v any) string {
	l, ok := v.([]any)
	if !ok || len(l) == 0 {
		return ""
	}
	var str, num, boo bool
	for _, e := range l {
		switch e.(type) {
		case string:
			str = true
		case float64:
			num = true
		case bool:
			boo = true
		}
	}
	switch {
	case str && !num && !boo:
		return "string-elements"
	case num && !str && !boo:
		return "numeric-elements"
	case boo && !str && !num:
		return "boolean-elements"
	}
	return "mixed-elements"
}

// hasNonStringList: some live vector carries a list with a numeric or boolean element.
func (m *c08Model) hasNonStringList() bool {
	for _, meta := range m.Live {
		for _, v := range meta {
			if cl := c08ListClass(v); cl != "" && cl != "string-elements" {
				return true
			}
		}
	}
	return false
}

func (m *c08Model) hasList() bool {
	for _, meta := range m.Live {
		for _, v := range meta {
			if _, ok := v.([]any); ok {
				return true
			}
		}
	}
	return false
}

func c08TypeName(v any) string {
	switch v.(type) {
	case nil:
		return "absent"
	case string:
		return "string"
	case float64:
		return "number"
	case bool:
		return "bool"
	case []any:
		return "list"
	}
	return "other"
}

// ---------------------------------------------------------------- small helpers

func c08FmtNum(f float64) string { return strconv.FormatFloat(f, 'g', -1, 64) }
