package engine

// C15 part "engine": memory-enabled indexes built from generated layer
// configurations and memories; the decay factor, the score, the ordering and
// the effect of VReinforce are observed through the public engine API
// (VSearchWithScores breakdown, VSearchGraph scores, VSearch order, VGet).
//
// The oracle is the property statement:
//   factor = 1            if decay is off / the memory is pinned / its layer has
//                         no decay / its reference time is not in the past
//   factor = model(now - reference time, layer half-life, access count) otherwise
//   reference time = newer of _created_at and _last_accessed (pkg/engine/README.md,
//                    DOCUMENTATION.md 4.8 "time elapsed since their last access")
//   score  = similarity * factor, results ordered by score
//   VReinforce: _access_count += 1 exactly, _last_accessed = now (bracketed)
//   a reinforced twin never scores / ranks below its unreinforced twin.
//
// Hybrid (vector + text) searches: when the case has a text index, the same
// memories are also loaded into a control index "c" of the same engine whose
// memory configuration is nil (decay disabled => factor 1, so the control score
// IS the fused similarity). Every hybrid query is sent to both; for every hit
// whose membership in the vector leg is the same in both indexes
//   score in "m" = score in "c" * factor(memory)        (bracketed clock)
// however the hit was reached (vector leg, text leg, both), results are ordered
// by that score, the k best of the common candidates are the ones returned, and
// the reinforced-twin ordering holds. The fusion formula itself is not modelled.
//
// The wall clock (whole seconds, read by the engine during a search) is
// bracketed: the reference is evaluated at the clock value read before and
// after the call and the observed factor must lie in between.

import (
	"math"
	"math/rand"
	"path/filepath"
	"sort"
	"strings"
	"testing"
	"time"

	"github.com/sanonone/kektordb/internal/verifkit"
	"github.com/sanonone/kektordb/pkg/core/distance"
	"github.com/sanonone/kektordb/pkg/core/hnsw"
	"pgregory.net/rapid"
)

type c15Layer struct {
	Name            string `json:"name"`
	HalfLifeNs      int64  `json:"half_life_ns"`
	PinnedByDefault bool   `json:"pinned_by_default"`
}

type c15Mem struct {
	ID          string    `json:"id"`
	Vec         []float32 `json:"vec"`
	AgeS        float64   `json:"age_s"`        // _created_at = case start - age_s (negative: future)
	CreatedType string    `json:"created_type"` // float64 | int | int64 | absent
	Pinned      string    `json:"pinned"`       // "" | bool:true | bool:false | str:true | str:false
	Model       *string   `json:"decay_model"`  // per-memory _decay_model (nil: absent)
	Layer       *string   `json:"memory_layer"` // nil: absent
	CountType   string    `json:"count_type"`   // absent | float64 | int | int64
	Count       int       `json:"access_count"`
	LastAgeS    *float64  `json:"last_accessed_age_s"` // initial _last_accessed = case start - v (nil: absent)
	TwinOf      int       `json:"twin_of"`             // index of the memory this one copies, -1: none
	Content     string    `json:"content,omitempty"`   // text field "content" (only when the case has a text index)
}

// c15Hybrid is one hybrid (vector + text) query, run in every search phase.
type c15Hybrid struct {
	Text  string  `json:"text"`
	Mode  string  `json:"mode"` // explicit (text query argument) | contains (CONTAINS(content,'..') filter) | explicit+filter (plus a boolean filter matching every memory)
	Alpha float64 `json:"alpha"`
	K     int     `json:"k"`
}

type c15EngCase struct {
	Metric     string     `json:"metric"`
	MemCfg     string     `json:"memory_config"` // nil | disabled | default | enabled
	Model      string     `json:"decay_model"`
	HalfLifeNs int64      `json:"half_life_ns"`
	Layers     []c15Layer `json:"layers"`
	Mems       []c15Mem   `json:"memories"`
	Query      []float32  `json:"query"`
	K          int        `json:"k"`
	Reinforce  [][]int    `json:"reinforce_calls"` // memory indexes per VReinforce call (-1: unknown id)
	// Persist: between the first search and the reinforce calls the engine is optionally restarted ("restart"),
	// restarted from a snapshot ("snapshot+restart") or from a compacted log ("rewrite+restart"); the decay laws
	// must hold with the same configuration afterwards.
	Persist string `json:"persist,omitempty"`
	// TextLang != "": the index has a text index; memories carry a "content" field and the hybrid queries are run.
	TextLang string      `json:"text_language,omitempty"`
	Hybrid   []c15Hybrid `json:"hybrid_queries,omitempty"`
	// Prev != nil: the index name is not fresh. Before the index of this case is built, the same engine
	// creates an index under the SAME name with the (independently drawn) configuration Prev, loads Prev's
	// memories (same ids m0, m1 as the first memories of the case, other vectors and metadata), runs the
	// three searches on it (judged by the same oracle) and drops it. When the case has a control index its
	// name gets the same previous incarnation. Only Metric, MemCfg, Model, HalfLifeNs, Layers, Mems, Query
	// and K of Prev are used. The laws must hold with the configuration of the index being searched.
	Prev *c15EngCase `json:"previous_incarnation,omitempty"`
}

var c15Words = []string{"zebra", "apple", "river", "stone"}

var c15HalfLives = []int64{0, 1, int64(time.Millisecond), int64(time.Second), int64(time.Minute), int64(time.Hour),
	int64(72 * time.Hour), int64(168 * time.Hour), int64(720 * time.Hour), int64(8760 * time.Hour)}

func c15GenHalfLife(t *rapid.T, label string, zeroBias bool) int64 {
	if zeroBias && rapid.IntRange(0, 3).Draw(t, label+"Zero") == 0 {
		return 0 // "If 0, the layer has no decay"
	}
	if rapid.IntRange(0, 4).Draw(t, label+"Rnd") == 0 {
		return int64(math.Pow(10, rapid.Float64Range(0, 18).Draw(t, label+"Exp")))
	}
	return rapid.SampledFrom(c15HalfLives).Draw(t, label)
}

func c15BuildCfg(c c15EngCase) *hnsw.MemoryConfig {
	switch c.MemCfg {
	case "nil":
		return nil
	case "default":
		d := hnsw.DefaultMemoryConfig()
		return &d
	}
	cfg := &hnsw.MemoryConfig{Enabled: c.MemCfg == "enabled", DecayModel: hnsw.DecayModel(c.Model), DecayHalfLife: hnsw.Duration(c.HalfLifeNs)}
	if len(c.Layers) > 0 {
		cfg.Layers = map[string]hnsw.LayerConfig{}
		for _, l := range c.Layers {
			cfg.Layers[l.Name] = hnsw.LayerConfig{DecayHalfLife: hnsw.Duration(l.HalfLifeNs), PinnedByDefault: l.PinnedByDefault}
		}
	}
	return cfg
}

func c15Enabled(cfg *hnsw.MemoryConfig) bool { return cfg != nil && cfg.Enabled }

// c15LayerOf: the layer a memory belongs to (documented default "episodic").
func c15LayerOf(m c15Mem) string {
	if m.Layer != nil && *m.Layer != "" {
		return *m.Layer
	}
	return "episodic"
}

func c15PinnedOf(cfg *hnsw.MemoryConfig, m c15Mem) bool {
	switch m.Pinned {
	case "bool:true", "str:true":
		return true
	case "bool:false", "str:false":
		return false
	}
	if c15Enabled(cfg) && len(cfg.Layers) > 0 {
		if lc, ok := cfg.Layers[c15LayerOf(m)]; ok && lc.PinnedByDefault {
			return true // LayerConfig.PinnedByDefault: pinned unless the user said otherwise
		}
	}
	return false
}

// c15HalfLifeOf returns the half-life (seconds) governing the memory and
// whether its layer decays at all.
func c15HalfLifeOf(cfg *hnsw.MemoryConfig, layer string) (h float64, decays bool) {
	h = time.Duration(cfg.DecayHalfLife).Seconds()
	if h <= 0 {
		h = c15DefaultHalfLifeS
	}
	if lc, ok := cfg.Layers[layer]; ok {
		if lc.DecayHalfLife == 0 {
			return 0, false
		}
		h = time.Duration(lc.DecayHalfLife).Seconds()
	}
	return h, true
}

func c15ModelOf(cfg *hnsw.MemoryConfig, m c15Mem) string {
	model := string(cfg.DecayModel)
	if model == "" {
		model = "exponential"
	}
	if m.Model != nil && *m.Model != "" {
		model = *m.Model
	}
	return model
}

// ---------------------------------------------------------------- generator

// c15CfgKinds: weights of the memory-configuration kinds (index 0 is what rapid shrinks towards).
var c15CfgKinds = []string{"nil", "disabled", "default", "default", "default",
	"enabled", "enabled", "enabled", "enabled", "enabled", "enabled", "enabled", "enabled", "enabled", "enabled", "enabled", "enabled", "enabled", "enabled", "enabled"}

// c15CfgKindsAfterPrev: the index that follows a previous incarnation more often has no decay at all.
var c15CfgKindsAfterPrev = []string{"nil", "nil", "nil", "disabled", "disabled", "default", "default", "default",
	"enabled", "enabled", "enabled", "enabled", "enabled", "enabled", "enabled", "enabled", "enabled", "enabled", "enabled", "enabled"}

// c15GenCfgInto draws the memory configuration of c (labels prefixed with pfx).
func c15GenCfgInto(t *rapid.T, c *c15EngCase, pfx string, kinds []string) {
	c.MemCfg = rapid.SampledFrom(kinds).Draw(t, pfx+"cfgKind")
	if c.MemCfg == "enabled" || c.MemCfg == "disabled" {
		if rapid.IntRange(0, 5).Draw(t, pfx+"cfgModelKind") == 0 {
			c.Model = rapid.SampledFrom(c15OddModels).Draw(t, pfx+"cfgModelOdd")
		} else {
			c.Model = rapid.SampledFrom(c15KnownModels).Draw(t, pfx+"cfgModel")
		}
		c.HalfLifeNs = c15GenHalfLife(t, pfx+"globalHL", false)
		nl := rapid.SampledFrom([]int{0, 1, 2, 3, 3}).Draw(t, pfx+"nLayers")
		names := []string{"episodic", "semantic", "procedural", "custom"}
		for i := 0; i < nl; i++ {
			name := rapid.SampledFrom(names).Draw(t, pfx+"layerName")
			dup := false
			for _, l := range c.Layers {
				if l.Name == name {
					dup = true
				}
			}
			if dup {
				continue
			}
			c.Layers = append(c.Layers, c15Layer{Name: name, HalfLifeNs: c15GenHalfLife(t, pfx+"layerHL", true),
				PinnedByDefault: rapid.IntRange(0, 2).Draw(t, pfx+"layerPinned") == 0})
		}
	}
}

// c15CfgHalfLives: half-lives (seconds) present in a configuration, to aim ages at them.
func c15CfgHalfLives(cfg *hnsw.MemoryConfig) []float64 {
	hls := []float64{c15DefaultHalfLifeS}
	if cfg != nil {
		if s := time.Duration(cfg.DecayHalfLife).Seconds(); s > 0 {
			hls = append(hls, s)
		}
		var ln []string
		for n := range cfg.Layers {
			ln = append(ln, n)
		}
		sort.Strings(ln)
		for _, n := range ln {
			if s := time.Duration(cfg.Layers[n].DecayHalfLife).Seconds(); s > 0 {
				hls = append(hls, s)
			}
		}
	}
	return hls
}

// c15AgeGen returns the age generator aimed at the half-lives hls.
func c15AgeGen(t *rapid.T, hls []float64) func(label string, allowFuture bool) float64 {
	return func(label string, allowFuture bool) float64 {
		var a float64
		switch rapid.IntRange(0, 9).Draw(t, label+"Kind") {
		case 0:
			if allowFuture {
				a = rapid.SampledFrom([]float64{-10, -3600, -1e8}).Draw(t, label+"Future")
			} else {
				a = 0
			}
		case 1:
			a = rapid.SampledFrom([]float64{0, 1, 30}).Draw(t, label+"Now")
		case 2, 3:
			a = rapid.SampledFrom([]float64{3600, 86400, 3 * 86400, 7 * 86400, 30 * 86400, 365 * 86400, 1.5e9}).Draw(t, label+"Abs")
		default:
			h := rapid.SampledFrom(hls).Draw(t, label+"HL")
			r := rapid.SampledFrom([]float64{0.25, 0.5, 1, 1.5, 3, 20}).Draw(t, label+"Ratio")
			a = h*r + rapid.SampledFrom([]float64{0, 0, -5, 5, 0.5}).Draw(t, label+"Off")
			if a < 0 {
				a = 0
			}
		}
		if a > 1.6e9 {
			a = 1.6e9
		}
		return a
	}
}

var c15VecComp = []float32{-2, -1, -0.5, 0.5, 1, 2, 3}

func c15GenVec(t *rapid.T, label string) []float32 {
	return []float32{rapid.SampledFrom(c15VecComp).Draw(t, label+"0"), rapid.SampledFrom(c15VecComp).Draw(t, label+"1"), rapid.SampledFrom(c15VecComp).Draw(t, label+"2")}
}

var c15LayerNames = []string{"episodic", "semantic", "procedural", "custom", "nosuchlayer", ""}

// c15GenMem draws one memory (labels prefixed with pfx); textLang != "": it may carry a content field.
func c15GenMem(t *rapid.T, pfx string, genAge func(string, bool) float64, textLang string) c15Mem {
	m := c15Mem{Vec: c15GenVec(t, pfx+"vec"), TwinOf: -1}
	if textLang != "" && rapid.IntRange(0, 5).Draw(t, pfx+"hasContent") > 0 {
		nw := rapid.IntRange(1, 3).Draw(t, pfx+"nWords")
		var ws []string
		for j := 0; j < nw; j++ {
			ws = append(ws, rapid.SampledFrom(c15Words).Draw(t, pfx+"word"))
		}
		m.Content = strings.Join(ws, " ")
	}
	m.AgeS = genAge(pfx+"age", true)
	m.CreatedType = rapid.SampledFrom([]string{"float64", "float64", "float64", "float64", "int", "int64", "absent"}).Draw(t, pfx+"createdType")
	m.Pinned = rapid.SampledFrom([]string{"", "", "", "", "bool:true", "str:true", "bool:false", "str:false"}).Draw(t, pfx+"pinned")
	if rapid.IntRange(0, 2).Draw(t, pfx+"hasOverride") == 0 {
		var s string
		if rapid.IntRange(0, 4).Draw(t, pfx+"overrideOdd") == 0 {
			s = rapid.SampledFrom(c15OddModels).Draw(t, pfx+"overrideOddName")
		} else {
			s = rapid.SampledFrom(c15KnownModels).Draw(t, pfx+"override")
		}
		m.Model = &s
	}
	if rapid.IntRange(0, 2).Draw(t, pfx+"hasLayer") > 0 {
		s := rapid.SampledFrom(c15LayerNames).Draw(t, pfx+"layer")
		m.Layer = &s
	}
	m.CountType = rapid.SampledFrom([]string{"absent", "absent", "absent", "float64", "float64", "int", "int64"}).Draw(t, pfx+"countType")
	if m.CountType != "absent" {
		m.Count = rapid.SampledFrom([]int{0, 1, 2, 5, 20, 1000, -1, -3}).Draw(t, pfx+"count")
	}
	if rapid.IntRange(0, 6).Draw(t, pfx+"hasLast") == 0 {
		v := genAge(pfx+"lastAge", false)
		m.LastAgeS = &v
	}
	return m
}

// c15GenPrev draws a previous incarnation of the index name: its own metric,
// memory configuration, one or two memories and a query.
func c15GenPrev(t *rapid.T) *c15EngCase {
	p := &c15EngCase{}
	p.Metric = rapid.SampledFrom([]string{"euclidean", "euclidean", "cosine"}).Draw(t, "prev:metric")
	c15GenCfgInto(t, p, "prev:", c15CfgKinds)
	genAge := c15AgeGen(t, c15CfgHalfLives(c15BuildCfg(*p)))
	n := rapid.IntRange(1, 2).Draw(t, "prev:nMems")
	for i := 0; i < n; i++ {
		m := c15GenMem(t, "prev:", genAge, "")
		m.ID = c15Sprintf("m%d", i)
		p.Mems = append(p.Mems, m)
	}
	p.Query = c15GenVec(t, "prev:q")
	p.K = 16
	return p
}

func c15GenEng() *rapid.Generator[c15EngCase] {
	return rapid.Custom(func(t *rapid.T) c15EngCase {
		var c c15EngCase
		kinds := c15CfgKinds
		if rapid.IntRange(0, 9).Draw(t, "hasPrev") >= 7 {
			c.Prev = c15GenPrev(t)
			kinds = c15CfgKindsAfterPrev
		}
		c.Metric = rapid.SampledFrom([]string{"euclidean", "euclidean", "cosine"}).Draw(t, "metric")
		c15GenCfgInto(t, &c, "", kinds)
		cfg := c15BuildCfg(c)
		genAge := c15AgeGen(t, c15CfgHalfLives(cfg))
		genVec := func(label string) []float32 { return c15GenVec(t, label) }
		if rapid.IntRange(0, 9).Draw(t, "hasText") >= 6 {
			c.TextLang = "english"
		}
		nBase := rapid.IntRange(1, 5).Draw(t, "nMems")
		if c.TextLang != "" {
			nBase = rapid.IntRange(1, 6).Draw(t, "nMemsText")
		}
		for i := 0; i < nBase; i++ {
			m := c15GenMem(t, "", genAge, c.TextLang)
			c.Mems = append(c.Mems, m)
		}
		nTwins := rapid.SampledFrom([]int{0, 1, 1, 1, 2, 3}).Draw(t, "nTwins")
		for i := 0; i < nTwins && len(c.Mems) < 8; i++ {
			of := rapid.IntRange(0, nBase-1).Draw(t, "twinOf")
			if c.Mems[of].CreatedType == "absent" {
				c.Mems[of].CreatedType = "float64" // twins must share one explicit timestamp
			}
			tw := c.Mems[of]
			tw.Vec = append([]float32{}, tw.Vec...)
			tw.TwinOf = of
			c.Mems = append(c.Mems, tw)
		}
		for i := range c.Mems {
			c.Mems[i].ID = c15Sprintf("m%d", i)
		}
		c.Query = genVec("q")
		c.K = rapid.SampledFrom([]int{16, 16, 16, 16, 8, 3, 1}).Draw(t, "k")
		// reinforcement: aim at one member of a twin pair, then random calls
		for i, m := range c.Mems {
			if m.TwinOf >= 0 && rapid.IntRange(0, 9).Draw(t, "twinReinforce") < 7 {
				who := i
				if rapid.Bool().Draw(t, "twinReinforceOrig") {
					who = m.TwinOf
				}
				c.Reinforce = append(c.Reinforce, []int{who})
				break
			}
		}
		nCalls := rapid.IntRange(0, 3).Draw(t, "nReinforce")
		for i := 0; i < nCalls; i++ {
			n := rapid.IntRange(1, 3).Draw(t, "nIDs")
			var call []int
			for j := 0; j < n; j++ {
				x := rapid.IntRange(-1, len(c.Mems)-1).Draw(t, "reinforceID")
				dup := false
				for _, y := range call {
					if y == x {
						dup = true
					}
				}
				if !dup {
					call = append(call, x)
				}
			}
			c.Reinforce = append(c.Reinforce, call)
		}
		c.Persist = rapid.SampledFrom([]string{"", "", "restart", "snapshot+restart", "snapshot+restart", "rewrite+restart"}).Draw(t, "persist")
		if c.TextLang != "" {
			nq := rapid.IntRange(1, 2).Draw(t, "nHybrid")
			for i := 0; i < nq; i++ {
				h := c15Hybrid{Text: rapid.SampledFrom(c15Words).Draw(t, "hybridWord")}
				switch rapid.IntRange(0, 9).Draw(t, "hybridTextKind") {
				case 0:
					h.Text += " " + rapid.SampledFrom(c15Words).Draw(t, "hybridWord2")
				case 1:
					h.Text = "absent" // matches nothing: the text leg is empty
				}
				h.Mode = rapid.SampledFrom([]string{"explicit", "explicit", "contains", "explicit+filter"}).Draw(t, "hybridMode")
				h.Alpha = rapid.SampledFrom([]float64{0, 0.1, 0.3, 0.5, 0.5, 0.9, 1}).Draw(t, "hybridAlpha")
				h.K = rapid.SampledFrom([]int{1, 1, 2, 2, 3, 4, c.K}).Draw(t, "hybridK")
				c.Hybrid = append(c.Hybrid, h)
			}
		}
		return c
	})
}

// c15StaticFactor: the stated factor of a memory under a configuration, evaluated
// at the start of the case (labels and non-triviality only, never the oracle).
func c15StaticFactor(cfg *hnsw.MemoryConfig, m c15Mem) (float64, bool) {
	if !c15Enabled(cfg) || c15PinnedOf(cfg, m) {
		return 1, true
	}
	h, decays := c15HalfLifeOf(cfg, c15LayerOf(m))
	if !decays {
		return 1, true
	}
	age := m.AgeS
	if m.CreatedType == "absent" {
		age = 0
	}
	if m.LastAgeS != nil && *m.LastAgeS < age {
		age = *m.LastAgeS
	}
	cnt := 0
	if m.CountType != "absent" {
		cnt = m.Count
	}
	return c15Ref(c15ModelOf(cfg, m), age, h, cnt)
}

// c15PrevDiffers: some memory of the case has a stated factor under the
// configuration of the previous incarnation that differs visibly from the one
// under the configuration of the index it lives in.
func c15PrevDiffers(c c15EngCase) bool {
	if c.Prev == nil {
		return false
	}
	cfg, old := c15BuildCfg(c), c15BuildCfg(*c.Prev)
	for _, m := range c.Mems {
		a, ok1 := c15StaticFactor(cfg, m)
		b, ok2 := c15StaticFactor(old, m)
		if ok1 && ok2 && math.Abs(a-b) > 0.01 {
			return true
		}
	}
	return false
}

func c15EngNonTrivial(c c15EngCase) bool {
	cfg := c15BuildCfg(c)
	if !c15Enabled(cfg) {
		// "equals 1 when decay is disabled" is only a real question when something could have decayed:
		// the name carried a decaying index before and a memory is old enough to show it.
		return c15PrevDiffers(c)
	}
	decaying, special := false, len(c.Reinforce) > 0
	for _, m := range c.Mems {
		_, decays := c15HalfLifeOf(cfg, c15LayerOf(m))
		pinned := c15PinnedOf(cfg, m)
		if !pinned && decays && m.AgeS > 0 && m.CreatedType != "absent" {
			decaying = true
		}
		if pinned || !decays || m.AgeS < 0 || m.TwinOf >= 0 {
			special = true
		}
	}
	return decaying && special
}

func c15EngLabels(c c15EngCase) []string {
	cfg := c15BuildCfg(c)
	l := []string{"cfg:" + c.MemCfg}
	if len(c.Hybrid) > 0 {
		l = append(l, "hybrid: text index + hybrid queries")
	}
	if c.Prev != nil {
		old := c15BuildCfg(*c.Prev)
		l = append(l, "prev: index name had a previous incarnation (created, loaded, searched, dropped)")
		switch {
		case c15Enabled(old) && !c15Enabled(cfg):
			l = append(l, "prev: previous incarnation decays, current one has decay off (nil/disabled config)")
		case !c15Enabled(old) && c15Enabled(cfg):
			l = append(l, "prev: previous incarnation had decay off, current one decays")
		case c15Enabled(old) && c15Enabled(cfg):
			l = append(l, "prev: both incarnations decay")
			if c15ModelOf(old, c15Mem{}) != c15ModelOf(cfg, c15Mem{}) {
				l = append(l, "prev: other decay model")
			}
			if old.DecayHalfLife != cfg.DecayHalfLife {
				l = append(l, "prev: other global half-life")
			}
			if c15Sprintf("%v", old.Layers) != c15Sprintf("%v", cfg.Layers) {
				l = append(l, "prev: other layer table")
			}
		default:
			l = append(l, "prev: neither incarnation decays")
		}
		if c15PrevDiffers(c) {
			l = append(l, "prev: some memory's stated factor differs by > 0.01 between the two configurations")
		}
		if len(c.Hybrid) > 0 {
			l = append(l, "prev: control index name had a previous (decaying or not) incarnation too")
		}
		if c.Persist != "" {
			l = append(l, "prev: followed by a restart later in the case")
		}
	}
	if !c15Enabled(cfg) {
		return l
	}
	if len(cfg.Layers) > 0 {
		l = append(l, "cfg:has layers")
	}
	seen := map[string]bool{}
	add := func(s string) {
		if !seen[s] {
			seen[s] = true
			l = append(l, s)
		}
	}
	twinHit := false
	for i, m := range c.Mems {
		model := c15ModelOf(cfg, m)
		known := false
		for _, k := range c15KnownModels {
			if k == model {
				known = true
			}
		}
		if known {
			add("mem model:" + model)
		} else {
			add("mem model:unknown name")
		}
		if m.Model != nil {
			add("mem:_decay_model override")
		}
		_, decays := c15HalfLifeOf(cfg, c15LayerOf(m))
		if !decays {
			add("mem:no-decay layer")
		}
		switch m.Pinned {
		case "bool:true":
			add("mem:pinned bool")
		case "str:true":
			add("mem:pinned string")
		case "":
			if c15PinnedOf(cfg, m) {
				add("mem:pinned by layer default")
			}
		default:
			add("mem:explicitly unpinned")
		}
		if m.AgeS < 0 {
			add("mem:future timestamp")
		}
		if m.AgeS == 0 {
			add("mem:timestamp now")
		}
		if m.CreatedType == "int" || m.CreatedType == "int64" {
			add("mem:_created_at integer type")
		}
		if m.CreatedType == "absent" {
			add("mem:_created_at injected")
		}
		if m.CountType == "int" || m.CountType == "int64" {
			add("mem:_access_count integer type")
		}
		if m.CountType != "absent" && m.Count < 0 {
			add("mem:negative access count")
		}
		if m.LastAgeS != nil {
			add("mem:initial _last_accessed")
		}
		if m.TwinOf >= 0 {
			add("twin pair")
			ra, rb := 0, 0
			for _, call := range c.Reinforce {
				for _, x := range call {
					if x == i {
						ra++
					}
					if x == m.TwinOf {
						rb++
					}
				}
			}
			if (ra > 0) != (rb > 0) {
				twinHit = true
			}
		}
	}
	if twinHit {
		add("twin pair with exactly one side reinforced")
	}
	if len(c.Reinforce) > 0 {
		add("has reinforce")
	}
	if c.K < len(c.Mems) {
		add("k < number of memories")
	}
	for _, h := range c.Hybrid {
		if h.Mode != "explicit" {
			add("hybrid: mode " + h.Mode)
		}
		if h.Alpha == 0 || h.Alpha == 1 {
			add("hybrid: alpha 0 or 1 (one leg weighs nothing)")
		}
		matches := 0
		for i, m := range c.Mems {
			if !c15TextMatch(m.Content, h.Text) {
				continue
			}
			matches++
			// label only: is the match certainly outside the vector leg (at least k strictly nearer memories)?
			di, nearer := c15LabelDist(c.Metric, c.Query, m.Vec), 0
			for j, o := range c.Mems {
				if j != i && c15LabelDist(c.Metric, c.Query, o.Vec) < di {
					nearer++
				}
			}
			if nearer < h.K {
				continue
			}
			add("hybrid: text match outside the k nearest vectors")
			_, decays := c15HalfLifeOf(cfg, c15LayerOf(m))
			if decays && !c15PinnedOf(cfg, m) && m.AgeS > 0 && m.CreatedType != "absent" {
				add("hybrid: aged unpinned decaying text match outside the k nearest vectors")
			}
		}
		if matches == 0 {
			add("hybrid: text leg empty")
		}
	}
	return l
}

// c15TextMatch: does the content share a word with the text query (the
// vocabulary is made of lower-case singular nouns that stemming leaves apart).
func c15TextMatch(content, query string) bool {
	for _, w := range strings.Fields(query) {
		for _, x := range strings.Fields(content) {
			if w == x {
				return true
			}
		}
	}
	return false
}

// c15LabelDist is used for evidence labels only (never by the oracle).
func c15LabelDist(metric string, a, b []float32) float64 {
	var dot, na, nb, d2 float64
	for i := range a {
		x, y := float64(a[i]), float64(b[i])
		dot += x * y
		na += x * x
		nb += y * y
		d2 += (x - y) * (x - y)
	}
	if metric == "cosine" {
		return 1 - dot/math.Sqrt(na*nb)
	}
	return d2
}

// ---------------------------------------------------------------- interpreter

type c15State struct {
	created    float64
	hasLast    bool
	last       float64
	count      float64
	reinforced int
}

func c15Num(v any) (float64, bool) {
	switch x := v.(type) {
	case float64:
		return x, true
	case int:
		return float64(x), true
	case int64:
		return float64(x), true
	}
	return 0, false
}

type c15Stats struct {
	ticked    int
	twinCheck int
	between   int
	missing   int
	// hybrid queries
	hybHits      int // hits of hybrid queries compared with the control index
	hybTextOnly  int // ... reached through the text leg only
	hybTextDecay int // ... reached through the text leg only with a stated factor < 1
	hybSkipped   int // hits not compared: vector-leg membership differs between the two indexes (distance ties)
	hybTopK      int // top-k selection comparisons made
	hybTwin      int // twin comparisons made on hybrid scores
}

type c15Runner struct {
	c     c15EngCase
	cfg   *hnsw.MemoryConfig
	e     *Engine
	st    []c15State
	byID  map[string]int
	stats *c15Stats
}

// expect returns the documented factor of memory i at clock value now;
// ok=false: the documentation does not define it (negative Ebbinghaus count).
func (r *c15Runner) expect(i int, now float64) (float64, bool) {
	if !c15Enabled(r.cfg) {
		return 1, true
	}
	m := r.c.Mems[i]
	if c15PinnedOf(r.cfg, m) {
		return 1, true
	}
	h, decays := c15HalfLifeOf(r.cfg, c15LayerOf(m))
	if !decays {
		return 1, true
	}
	ref := r.st[i].created
	if r.st[i].hasLast && r.st[i].last > ref {
		ref = r.st[i].last
	}
	return c15Ref(c15ModelOf(r.cfg, m), now-ref, h, int(r.st[i].count))
}

func (r *c15Runner) describe(i int) string {
	m := r.c.Mems[i]
	s := r.st[i]
	h, decays := 0.0, false
	model := ""
	if c15Enabled(r.cfg) {
		h, decays = c15HalfLifeOf(r.cfg, c15LayerOf(m))
		model = c15ModelOf(r.cfg, m)
	}
	return c15Sprintf("%s{layer=%q model=%q half-life=%gs decays=%v pinned=%v(%s) created=%v last_accessed=%v(has=%v) access_count=%v(%s)}",
		m.ID, c15LayerOf(m), model, h, decays, c15PinnedOf(r.cfg, m), m.Pinned, s.created, s.last, s.hasLast, s.count, m.CountType)
}

func (r *c15Runner) search(phase string) string {
	const idx = "m"
	q := r.c.Query
	k := r.c.K
	var scored []SearchResult
	var graph []GraphSearchResult
	var ids []string
	var t0, t1 int64
	for attempt := 0; attempt < 5; attempt++ {
		var err error
		t0 = time.Now().Unix()
		if scored, err = r.e.VSearchWithScores(idx, q, k); err != nil {
			return "HARNESS: VSearchWithScores: " + err.Error()
		}
		if graph, err = r.e.VSearchGraph(idx, q, k, "", "", 0, 1.0, nil, false, nil); err != nil {
			return "HARNESS: VSearchGraph: " + err.Error()
		}
		if ids, err = r.e.VSearch(idx, q, k, "", "", 0, 1.0, nil); err != nil {
			return "HARNESS: VSearch: " + err.Error()
		}
		t1 = time.Now().Unix()
		if t0 == t1 {
			break
		}
	}
	ticked := t0 != t1
	if ticked {
		r.stats.ticked++
	}
	if len(scored) < c15Min(k, len(r.c.Mems)) {
		r.stats.missing++
	}

	// ---- VSearchWithScores
	sim := map[string]float64{}
	scoreS := map[string]float64{}
	posS := map[string]int{}
	for i, res := range scored {
		mi, ok := r.byID[res.ID]
		if !ok {
			return c15Sprintf("[%s] VSearchWithScores returned unknown id %q", phase, res.ID)
		}
		if res.Breakdown == nil {
			return c15Sprintf("[%s] VSearchWithScores: result %s has no score breakdown", phase, res.ID)
		}
		f, s := res.Breakdown.DecayFactor, res.Breakdown.Similarity
		if !c15Unit(f) {
			return c15Sprintf("[%s] VSearchWithScores: decay_factor of %s = %v, not in [0,1]", phase, r.describe(mi), f)
		}
		if !c15Close(res.Score, s*f) {
			return c15Sprintf("[%s] VSearchWithScores: score of %s = %v, but similarity*decay_factor = %v*%v = %v", phase, res.ID, res.Score, s, f, s*f)
		}
		if i > 0 && !(res.Score <= scored[i-1].Score) {
			return c15Sprintf("[%s] VSearchWithScores: results not ordered by score: #%d %s=%v after #%d %s=%v", phase, i, res.ID, res.Score, i-1, scored[i-1].ID, scored[i-1].Score)
		}
		if f > 0 && f < 1 {
			r.stats.between++
		}
		sim[res.ID], scoreS[res.ID], posS[res.ID] = s, res.Score, i
		hi, ok1 := r.expect(mi, float64(t0))
		lo, ok2 := r.expect(mi, float64(t1))
		if ok1 && ok2 && !c15InBracket(f, lo, hi) {
			return c15Sprintf("[%s] VSearchWithScores: decay_factor of %s = %v, the stated law gives [%v, %v] (clock %d..%d)", phase, r.describe(mi), f, lo, hi, t0, t1)
		}
	}

	// ---- VSearchGraph (fused search path)
	scoreG := map[string]float64{}
	posG := map[string]int{}
	for i, res := range graph {
		mi, ok := r.byID[res.ID]
		if !ok {
			return c15Sprintf("[%s] VSearchGraph returned unknown id %q", phase, res.ID)
		}
		if math.IsNaN(res.Score) {
			return c15Sprintf("[%s] VSearchGraph: score of %s is NaN", phase, r.describe(mi))
		}
		if i > 0 && !(res.Score <= graph[i-1].Score) {
			return c15Sprintf("[%s] VSearchGraph: results not ordered by score: #%d %s=%v after #%d %s=%v", phase, i, res.ID, res.Score, i-1, graph[i-1].ID, graph[i-1].Score)
		}
		scoreG[res.ID], posG[res.ID] = res.Score, i
		s, ok := sim[res.ID]
		if !ok || !(s > 0) {
			continue // not among the scored results (k < n): no similarity to compare with
		}
		if !(res.Score >= 0) || res.Score > s*(1+c15RelTol)+c15AbsTol {
			return c15Sprintf("[%s] VSearchGraph: score of %s = %v with similarity %v: implied decay factor %v not in [0,1]", phase, r.describe(mi), res.Score, s, res.Score/s)
		}
		hi, ok1 := r.expect(mi, float64(t0))
		lo, ok2 := r.expect(mi, float64(t1))
		if ok1 && ok2 && !c15InBracket(res.Score, s*lo, s*hi) {
			return c15Sprintf("[%s] VSearchGraph: score of %s = %v = similarity %v * factor %v, the stated law gives a factor in [%v, %v] (clock %d..%d)", phase, r.describe(mi), res.Score, s, res.Score/s, lo, hi, t0, t1)
		}
	}

	// ---- VSearch (ids only): same order as the scores of the fused path
	posV := map[string]int{}
	for i, id := range ids {
		posV[id] = i
	}
	if !ticked {
		for i := 1; i < len(ids); i++ {
			a, okA := scoreG[ids[i-1]]
			b, okB := scoreG[ids[i]]
			if okA && okB && b > a {
				return c15Sprintf("[%s] VSearch: id %s (score %v) listed after %s (score %v)", phase, ids[i], b, ids[i-1], a)
			}
		}
	}

	// ---- reinforced twin never below the unreinforced twin
	if !ticked {
		for i, m := range r.c.Mems {
			if m.TwinOf < 0 {
				continue
			}
			R, U := -1, -1
			if r.st[i].reinforced > 0 && r.st[m.TwinOf].reinforced == 0 {
				R, U = i, m.TwinOf
			} else if r.st[m.TwinOf].reinforced > 0 && r.st[i].reinforced == 0 {
				R, U = m.TwinOf, i
			}
			if R < 0 {
				continue
			}
			rid, uid := r.c.Mems[R].ID, r.c.Mems[U].ID
			for _, api := range []struct {
				name  string
				score map[string]float64
				pos   []map[string]int
			}{{"VSearchWithScores", scoreS, []map[string]int{posS}}, {"VSearchGraph/VSearch", scoreG, []map[string]int{posG, posV}}} {
				sr, okR := api.score[rid]
				su, okU := api.score[uid]
				if !okR || !okU {
					continue
				}
				r.stats.twinCheck++
				if !(sr >= su-(c15AbsTol+c15RelTol*math.Abs(su))) {
					return c15Sprintf("[%s] %s: reinforced %s scores %v, below its unreinforced twin %s = %v", phase, api.name, r.describe(R), sr, r.describe(U), su)
				}
				if sr > su+(c15AbsTol+c15RelTol*math.Abs(su)) {
					for _, pos := range api.pos {
						pr, ok1 := pos[rid]
						pu, ok2 := pos[uid]
						if ok1 && ok2 && pr > pu {
							return c15Sprintf("[%s] %s: reinforced %s (score %v) ranked #%d, after its unreinforced twin %s (score %v) at #%d", phase, api.name, rid, sr, pr, uid, su, pu)
						}
					}
				}
			}
		}
	}
	for qi, h := range r.c.Hybrid {
		if msg := r.hybrid(phase, qi, h); msg != "" {
			return msg
		}
	}
	return ""
}

// hybrid runs one hybrid query on the memory index "m" and on the control
// index "c" (same memories, no memory configuration: factor 1) and compares.
func (r *c15Runner) hybrid(phase string, qi int, h c15Hybrid) string {
	q, k := r.c.Query, h.K
	filter, boolFilter, text := "", "", ""
	switch h.Mode {
	case "contains":
		filter = "CONTAINS(content, '" + h.Text + "')"
	case "explicit+filter":
		filter, boolFilter, text = "tag='c15'", "tag='c15'", h.Text
	default:
		text = h.Text
	}
	where := c15Sprintf("[%s] hybrid query #%d (text %q, mode %s, alpha %v, k %d)", phase, qi, h.Text, h.Mode, h.Alpha, k)
	var gm, gc, vm, vc []GraphSearchResult
	var ids []string
	var t0, t1 int64
	for attempt := 0; attempt < 5; attempt++ {
		var err error
		t0 = time.Now().Unix()
		if gm, err = r.e.VSearchGraph("m", q, k, filter, text, 0, h.Alpha, nil, false, nil); err != nil {
			return "HARNESS: hybrid VSearchGraph: " + err.Error()
		}
		if ids, err = r.e.VSearch("m", q, k, filter, text, 0, h.Alpha, nil); err != nil {
			return "HARNESS: hybrid VSearch: " + err.Error()
		}
		t1 = time.Now().Unix()
		if t0 == t1 {
			break
		}
	}
	ticked := t0 != t1
	var err error
	if gc, err = r.e.VSearchGraph("c", q, k, filter, text, 0, h.Alpha, nil, false, nil); err != nil {
		return "HARNESS: hybrid VSearchGraph (control): " + err.Error()
	}
	// vector leg of either index: the pure vector search with the same k and boolean filter
	if vm, err = r.e.VSearchGraph("m", q, k, boolFilter, "", 0, 1.0, nil, false, nil); err != nil {
		return "HARNESS: VSearchGraph (vector leg): " + err.Error()
	}
	if vc, err = r.e.VSearchGraph("c", q, k, boolFilter, "", 0, 1.0, nil, false, nil); err != nil {
		return "HARNESS: VSearchGraph (vector leg, control): " + err.Error()
	}
	inVm, inVc := map[string]bool{}, map[string]bool{}
	for _, x := range vm {
		inVm[x.ID] = true
	}
	for _, x := range vc {
		inVc[x.ID] = true
	}
	sameLeg := len(inVm) == len(inVc)
	for id := range inVm {
		if !inVc[id] {
			sameLeg = false
		}
	}
	simC := map[string]float64{}
	for _, x := range gc {
		if _, ok := r.byID[x.ID]; !ok {
			return c15Sprintf("HARNESS: %s: control index returned unknown id %q", where, x.ID)
		}
		simC[x.ID] = x.Score
	}

	scoreM := map[string]float64{}
	posM := map[string]int{}
	minM := math.Inf(1)
	for i, res := range gm {
		mi, ok := r.byID[res.ID]
		if !ok {
			return c15Sprintf("%s: VSearchGraph returned unknown id %q", where, res.ID)
		}
		if math.IsNaN(res.Score) {
			return c15Sprintf("%s: score of %s is NaN", where, r.describe(mi))
		}
		if i > 0 && !(res.Score <= gm[i-1].Score) {
			return c15Sprintf("%s: results not ordered by score: #%d %s=%v after #%d %s=%v", where, i, res.ID, res.Score, i-1, gm[i-1].ID, gm[i-1].Score)
		}
		scoreM[res.ID], posM[res.ID] = res.Score, i
		if res.Score < minM {
			minM = res.Score
		}
		s, ok := simC[res.ID]
		if !ok || !(s > 0) {
			continue // not returned by the control (its k best differ) or similarity 0: nothing to compare with
		}
		if inVm[res.ID] != inVc[res.ID] {
			r.stats.hybSkipped++
			continue // distance tie resolved differently: the fused similarity legitimately differs
		}
		r.stats.hybHits++
		leg := "vector leg"
		if !inVm[res.ID] {
			leg = "text leg only"
			r.stats.hybTextOnly++
		}
		if !(res.Score >= 0) || res.Score > s*(1+c15RelTol)+c15AbsTol {
			return c15Sprintf("%s: score of %s (%s) = %v with fused similarity %v (same query, decay disabled): implied decay factor %v not in [0,1]", where, r.describe(mi), leg, res.Score, s, res.Score/s)
		}
		hi, ok1 := r.expect(mi, float64(t0))
		lo, ok2 := r.expect(mi, float64(t1))
		if ok1 && ok2 {
			if leg == "text leg only" && hi < 1 {
				r.stats.hybTextDecay++
			}
			if !c15InBracket(res.Score, s*lo, s*hi) {
				return c15Sprintf("%s: score of %s (%s) = %v = fused similarity %v * factor %v, the stated law gives a factor in [%v, %v] (clock %d..%d)", where, r.describe(mi), leg, res.Score, s, res.Score/s, lo, hi, t0, t1)
			}
		}
	}

	// ids-only API: same order as the scores
	if !ticked {
		for i := 1; i < len(ids); i++ {
			a, okA := scoreM[ids[i-1]]
			b, okB := scoreM[ids[i]]
			if okA && okB && b > a {
				return c15Sprintf("%s: VSearch lists %s (score %v) after %s (score %v)", where, ids[i], b, ids[i-1], a)
			}
		}
	}

	// the k best by score are the ones returned: both indexes have the same
	// candidates (same vector leg, same text leg), so a candidate known from the
	// control that is absent from a full result must not beat the last result.
	if !ticked && sameLeg && len(gm) >= k {
		for _, x := range gc {
			if _, present := scoreM[x.ID]; present || !(x.Score > 0) {
				continue
			}
			mi := r.byID[x.ID]
			lo, ok := r.expect(mi, float64(t1))
			if !ok {
				continue
			}
			r.stats.hybTopK++
			if want := x.Score * lo; want > minM+(c15AbsTol+c15RelTol*want) {
				return c15Sprintf("%s: %s is not among the %d results although its score, fused similarity %v * factor %v = %v, is above the last returned score %v", where, r.describe(mi), len(gm), x.Score, lo, want, minM)
			}
		}
	}

	// reinforced twin never below the unreinforced twin (only when the fused
	// similarity of the two is the same, i.e. both or neither are vector hits)
	if !ticked {
		for i, m := range r.c.Mems {
			if m.TwinOf < 0 {
				continue
			}
			R, U := -1, -1
			if r.st[i].reinforced > 0 && r.st[m.TwinOf].reinforced == 0 {
				R, U = i, m.TwinOf
			} else if r.st[m.TwinOf].reinforced > 0 && r.st[i].reinforced == 0 {
				R, U = m.TwinOf, i
			}
			if R < 0 {
				continue
			}
			rid, uid := r.c.Mems[R].ID, r.c.Mems[U].ID
			sr, okR := scoreM[rid]
			su, okU := scoreM[uid]
			cr, okCR := simC[rid]
			cu, okCU := simC[uid]
			if !okR || !okU || !okCR || !okCU || !c15Close(cr, cu) || inVm[rid] != inVm[uid] || inVm[rid] != inVc[rid] || inVm[uid] != inVc[uid] {
				continue
			}
			r.stats.hybTwin++
			if !(sr >= su-(c15AbsTol+c15RelTol*math.Abs(su))) {
				return c15Sprintf("%s: reinforced %s scores %v, below its unreinforced twin %s = %v", where, r.describe(R), sr, r.describe(U), su)
			}
			if sr > su+(c15AbsTol+c15RelTol*math.Abs(su)) && posM[rid] > posM[uid] {
				return c15Sprintf("%s: reinforced %s (score %v) ranked #%d, after its unreinforced twin %s (score %v) at #%d", where, rid, sr, posM[rid], uid, su, posM[uid])
			}
		}
	}
	return ""
}

func c15Min(a, b int) int {
	if a < b {
		return a
	}
	return b
}

// load adds the memories of the case to index "m" and sets up the model state;
// keepMetas: also return a copy of every metadata map as sent (for a second index).
func (r *c15Runner) load(keepMetas bool) (metas []map[string]any, msg string) {
	c, e := r.c, r.e
	base := float64(time.Now().Unix())
	r.st = make([]c15State, len(c.Mems))
	r.byID = map[string]int{}
	for i, m := range c.Mems {
		r.byID[m.ID] = i
		meta := map[string]any{"tag": "c15"}
		if m.Content != "" && c.TextLang != "" {
			meta["content"] = m.Content
		}
		created := base - m.AgeS
		switch m.CreatedType {
		case "float64":
			meta["_created_at"] = created
		case "int":
			created = math.Trunc(created)
			meta["_created_at"] = int(created)
		case "int64":
			created = math.Trunc(created)
			meta["_created_at"] = int64(created)
		}
		switch m.Pinned {
		case "bool:true":
			meta["_pinned"] = true
		case "bool:false":
			meta["_pinned"] = false
		case "str:true":
			meta["_pinned"] = "true"
		case "str:false":
			meta["_pinned"] = "false"
		}
		if m.Model != nil {
			meta["_decay_model"] = *m.Model
		}
		if m.Layer != nil {
			meta["memory_layer"] = *m.Layer
		}
		switch m.CountType {
		case "float64":
			meta["_access_count"] = float64(m.Count)
		case "int":
			meta["_access_count"] = m.Count
		case "int64":
			meta["_access_count"] = int64(m.Count)
		}
		st := c15State{created: created}
		if m.CountType != "absent" {
			st.count = float64(m.Count)
		}
		if m.LastAgeS != nil {
			st.hasLast, st.last = true, base-*m.LastAgeS
			meta["_last_accessed"] = st.last
		}
		if keepMetas {
			cp := map[string]any{}
			for k, v := range meta {
				cp[k] = v
			}
			metas = append(metas, cp)
		}
		a0 := time.Now().Unix()
		if err := e.VAdd("m", m.ID, append([]float32{}, m.Vec...), meta); err != nil {
			return nil, "HARNESS: VAdd: " + err.Error()
		}
		a1 := time.Now().Unix()
		if m.CreatedType == "absent" && c15Enabled(r.cfg) {
			d, err := e.VGet("m", m.ID)
			if err != nil {
				return nil, "HARNESS: VGet: " + err.Error()
			}
			v, ok := c15Num(d.Metadata["_created_at"])
			if !ok || v < float64(a0) || v > float64(a1) {
				return nil, c15Sprintf("HARNESS: injected _created_at of %s = %v, not within the VAdd bracket [%d,%d]", m.ID, d.Metadata["_created_at"], a0, a1)
			}
			st.created = v // adopt the observed timestamp
		}
		r.st[i] = st
	}
	return metas, ""
}

// c15PreviousIncarnation gives the index name "m" (and the control name "c" when
// the case uses one) a past: an index of that name with the configuration and the
// memories of p is created, searched through the three search calls (name "m":
// judged like any other index; name "c": not judged) and dropped.
func c15PreviousIncarnation(e *Engine, p c15EngCase, control bool, stats *c15Stats) string {
	p.Prev, p.TextLang, p.Hybrid, p.Reinforce, p.Persist = nil, "", nil, nil, ""
	if len(p.Mems) == 0 || len(p.Query) == 0 {
		return ""
	}
	metric := distance.Euclidean
	if p.Metric == "cosine" {
		metric = distance.Cosine
	}
	if err := e.VCreate("m", metric, 16, 200, distance.Float32, "", nil, nil, c15BuildCfg(p)); err != nil {
		return "HARNESS: VCreate (previous incarnation): " + err.Error()
	}
	r := &c15Runner{c: p, cfg: c15BuildCfg(p), e: e, byID: map[string]int{}, stats: stats}
	metas, msg := r.load(control)
	if msg != "" {
		return msg
	}
	if msg := r.search("previous incarnation of the index name"); msg != "" {
		return msg
	}
	if err := e.VDeleteIndex("m"); err != nil {
		return "HARNESS: VDeleteIndex (previous incarnation): " + err.Error()
	}
	if control {
		if err := e.VCreate("c", metric, 16, 200, distance.Float32, "", nil, nil, c15BuildCfg(p)); err != nil {
			return "HARNESS: VCreate (previous incarnation of the control): " + err.Error()
		}
		for i, m := range p.Mems {
			if err := e.VAdd("c", m.ID, append([]float32{}, m.Vec...), metas[i]); err != nil {
				return "HARNESS: VAdd (previous incarnation of the control): " + err.Error()
			}
		}
		if _, err := e.VSearchWithScores("c", p.Query, p.K); err != nil {
			return "HARNESS: VSearchWithScores (previous incarnation of the control): " + err.Error()
		}
		if _, err := e.VSearchGraph("c", p.Query, p.K, "", "", 0, 1.0, nil, false, nil); err != nil {
			return "HARNESS: VSearchGraph (previous incarnation of the control): " + err.Error()
		}
		if _, err := e.VSearch("c", p.Query, p.K, "", "", 0, 1.0, nil); err != nil {
			return "HARNESS: VSearch (previous incarnation of the control): " + err.Error()
		}
		if err := e.VDeleteIndex("c"); err != nil {
			return "HARNESS: VDeleteIndex (previous incarnation of the control): " + err.Error()
		}
	}
	return ""
}

func c15RunEng(c c15EngCase, stats *c15Stats) (msg string) {
	defer func() {
		if p := recover(); p != nil {
			msg = c15Sprintf("panic: %v", p)
		}
	}()
	if len(c.Mems) == 0 || len(c.Query) == 0 {
		return ""
	}
	dir, cleanup := verifkit.TempDir("c15")
	defer cleanup()
	rand.Seed(verifkit.CaseSeed(verifkit.Hash(c)))
	opts := DefaultOptions(filepath.Join(dir, "data"))
	opts.AutoSaveInterval = 0
	opts.AutoSaveThreshold = 0
	opts.AofRewritePercentage = 0
	opts.MaintenanceInterval = 1000 * time.Hour
	e, err := Open(opts)
	if err != nil {
		return "HARNESS: Open: " + err.Error()
	}
	defer func() { e.Close() }()

	control := c.TextLang != "" && len(c.Hybrid) > 0
	if c.Prev != nil {
		if msg := c15PreviousIncarnation(e, *c.Prev, control, stats); msg != "" {
			return msg
		}
		rand.Seed(verifkit.CaseSeed(verifkit.Hash(c))) // the index of the case gets the level draws it would get on a fresh name
	}
	r := &c15Runner{c: c, cfg: c15BuildCfg(c), e: e, byID: map[string]int{}, stats: stats}
	metric := distance.Euclidean
	if c.Metric == "cosine" {
		metric = distance.Cosine
	}
	if err := e.VCreate("m", metric, 16, 200, distance.Float32, c.TextLang, nil, nil, c15BuildCfg(c)); err != nil {
		return "HARNESS: VCreate: " + err.Error()
	}
	if !control {
		r.c.Hybrid = nil
	} else if err := e.VCreate("c", metric, 16, 200, distance.Float32, c.TextLang, nil, nil, nil); err != nil {
		return "HARNESS: VCreate (control): " + err.Error()
	}
	metas, msg := r.load(control)
	if msg != "" {
		return msg
	}
	if control {
		// the control index: same memories, same metadata, same HNSW level draws, no memory configuration
		rand.Seed(verifkit.CaseSeed(verifkit.Hash(c)))
		for i, m := range c.Mems {
			if err := e.VAdd("c", m.ID, append([]float32{}, m.Vec...), metas[i]); err != nil {
				return "HARNESS: VAdd (control): " + err.Error()
			}
		}
	}

	if msg := r.search("before reinforce"); msg != "" {
		return msg
	}
	if c.Persist != "" {
		if strings.HasPrefix(c.Persist, "snapshot") {
			if err := e.SaveSnapshot(); err != nil {
				return "HARNESS: SaveSnapshot: " + err.Error()
			}
		}
		if strings.HasPrefix(c.Persist, "rewrite") {
			if err := e.RewriteAOF(); err != nil {
				return "HARNESS: RewriteAOF: " + err.Error()
			}
		}
		if err := e.Close(); err != nil {
			return "HARNESS: Close: " + err.Error()
		}
		e, err = Open(opts)
		if err != nil {
			return "HARNESS: Open after " + c.Persist + ": " + err.Error()
		}
		r.e = e
		if msg := r.search("after " + c.Persist); msg != "" {
			return msg
		}
	}

	for ci, call := range c.Reinforce {
		var ids []string
		before := map[int]float64{}
		for _, x := range call {
			if x < 0 || x >= len(c.Mems) {
				ids = append(ids, "ghost")
				continue
			}
			ids = append(ids, c.Mems[x].ID)
			d, err := e.VGet("m", c.Mems[x].ID)
			if err != nil {
				return "HARNESS: VGet: " + err.Error()
			}
			before[x] = 0
			if v, ok := d.Metadata["_access_count"]; ok {
				n, isNum := c15Num(v)
				if !isNum {
					return c15Sprintf("HARNESS: _access_count of %s has type %T", c.Mems[x].ID, v)
				}
				before[x] = n
			}
		}
		r0 := time.Now().Unix()
		if err := e.VReinforce("m", ids); err != nil {
			return "HARNESS: VReinforce: " + err.Error()
		}
		r1 := time.Now().Unix()
		if control {
			// same metadata write on the control index, so that both text indexes stay in the same state
			if err := e.VReinforce("c", ids); err != nil {
				return "HARNESS: VReinforce (control): " + err.Error()
			}
		}
		for _, x := range call {
			if x < 0 || x >= len(c.Mems) {
				continue
			}
			d, err := e.VGet("m", c.Mems[x].ID)
			if err != nil {
				return "HARNESS: VGet: " + err.Error()
			}
			got, ok := c15Num(d.Metadata["_access_count"])
			if !ok || got != before[x]+1 {
				return c15Sprintf("VReinforce call %d %v: _access_count of %s went from %v to %v, want exactly +1", ci, ids, c.Mems[x].ID, before[x], d.Metadata["_access_count"])
			}
			la, ok := c15Num(d.Metadata["_last_accessed"])
			if !ok || la < float64(r0) || la > float64(r1) {
				return c15Sprintf("VReinforce call %d %v: _last_accessed of %s = %v, not inside the call bracket [%d,%d]", ci, ids, c.Mems[x].ID, d.Metadata["_last_accessed"], r0, r1)
			}
			r.st[x].count = got
			r.st[x].hasLast, r.st[x].last = true, la
			r.st[x].reinforced++
		}
		if msg := r.search(c15Sprintf("after reinforce call %d %v", ci, ids)); msg != "" {
			return msg
		}
	}
	return ""
}

func TestVerif_C15_engine(t *testing.T) {
	c15Silence()
	col := verifkit.New("C15", "engine", "rapid-generated memory index (memory config nil/disabled/default/custom: decay model known/unknown/empty, global + 0-3 layer half-lives from 0/1ns..1y, pinned-by-default layers) with 1-8 memories (vector, _created_at past/now/future/injected as float64/int/int64, _pinned bool/string, _decay_model override, memory_layer, _access_count typed, initial _last_accessed, twins) and 0-4 VReinforce calls; decay factor / score / order checked through VSearchWithScores, VSearchGraph and VSearch before and after every reinforce call, counters through VGet; in about 40% of the cases the index has an English text index, the memories carry a 'content' field of 0-3 words and 1-2 hybrid queries (text query or CONTAINS filter, alpha 0..1, k 1..16) are run in every phase against the memory index and a decay-free control index holding the same memories: score = control score * stated factor for vector-leg and text-leg-only hits, order, top-k selection, twin ordering; in about 30% of the cases the index name (and the control name) is not fresh: the same engine first holds an index of that name with another, independently drawn metric / memory configuration and 1-2 memories with the same ids, searches it through the three calls (judged too) and drops it, and the index of the case then has decay off more often (nil/disabled 25%); non-trivial = decay enabled, at least one unpinned memory with a past explicit timestamp in a decaying layer AND at least one of: pinned memory, no-decay layer, future timestamp, twin pair, reinforce call; OR decay off after a previous incarnation under whose configuration some memory of the case would have a visibly different factor")
	defer col.Finish()
	stats := &c15Stats{}
	if p := verifkit.ReplayPath(); p != "" {
		if verifkit.ReplayPart(p) != "engine" {
			return
		}
		var c c15EngCase
		if err := verifkit.LoadReplay(p, &c); err != nil {
			t.Fatal(err)
		}
		col.Case(c, true, "replay")
		if msg := c15RunEng(c, stats); msg != "" {
			if len(msg) < 8 || msg[:8] != "HARNESS:" {
				col.Fail(c, "%s", msg)
			}
			t.Fatal(msg)
		}
		return
	}
	verifkit.RapidSetup(1600, 100000)
	rapid.Check(t, func(rt *rapid.T) {
		c := c15GenEng().Draw(rt, "case")
		col.Case(c, c15EngNonTrivial(c), c15EngLabels(c)...)
		msg := c15RunEng(c, stats)
		if msg != "" {
			if len(msg) < 8 || msg[:8] != "HARNESS:" {
				col.Fail(c, "%s", msg)
			}
			rt.Fatalf("%s", msg)
		}
	})
	col.Label("observed: searches during which the clock ticked (bracket only)", stats.ticked)
	col.Label("observed: twin comparisons made", stats.twinCheck)
	col.Label("observed: decay factors strictly between 0 and 1", stats.between)
	col.Label("observed: searches returning fewer results than min(k,n)", stats.missing)
	col.Label("observed hybrid: hits compared with the decay-free control index", stats.hybHits)
	col.Label("observed hybrid: hits reached through the text leg only", stats.hybTextOnly)
	col.Label("observed hybrid: text-leg-only hits whose stated factor is < 1", stats.hybTextDecay)
	col.Label("observed hybrid: hits not compared (vector-leg membership differs, distance tie)", stats.hybSkipped)
	col.Label("observed hybrid: top-k selection comparisons made", stats.hybTopK)
	col.Label("observed hybrid: twin comparisons made", stats.hybTwin)
}
