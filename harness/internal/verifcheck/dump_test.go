package verifcheck

import (
	"bytes"
	"encoding/json"
	"fmt"
	"math"
	"reflect"
	"sort"
	"time"

	"github.com/sanonone/kektordb/pkg/core"
	"github.com/sanonone/kektordb/pkg/core/hnsw"
	"github.com/sanonone/kektordb/pkg/engine"
	"github.com/x448/float16"
)

// TakeDump reads everything observable through the exported API. probe lists
// ids (per index) that are looked up with VGet even if the cursor does not
// list them (to catch ids that read back although they should be gone).
func TakeDump(e *engine.Engine, probe map[string][]string) (*Dump, error) {
	d := &Dump{KV: map[string]string{}, Idx: map[string]*DIdx{}}
	e.DB.IterateKV(func(p core.KVPair) {
		d.KV[p.Key] = string(p.Value)
	})
	for _, name := range e.ListIndexes() {
		info, err := e.DB.GetSingleVectorIndexInfoAPI(name)
		if err != nil {
			return nil, fmt.Errorf("index %s listed but info fails: %v", name, err)
		}
		h := hnswOf(e, name)
		if h == nil {
			return nil, fmt.Errorf("index %s listed but not retrievable", name)
		}
		di := &DIdx{Metric: string(info.Metric), Prec: string(info.Precision), M: info.M, EfC: info.EfConstruction, Lang: info.TextLanguage,
			Count: info.VectorCount, Vecs: map[string]DVec{}}
		mb, _ := json.Marshal(h.GetMaintenanceConfig())
		di.Maint = string(mb)
		al := h.GetAutoLinks()
		if len(al) == 0 {
			di.AutoLinks = "[]"
		} else {
			ab, _ := json.Marshal(al)
			di.AutoLinks = string(ab)
		}
		di.Memory = memJSON(h.GetMemoryConfig())
		if q := h.Quantizer(); q != nil {
			di.AbsMax = q.AbsMax
		}
		// ids through the cursor API
		seen := map[string]bool{}
		var cur uint32
		for guard := 0; guard < 10000; guard++ {
			ids, next, err := e.VGetIDsByCursor(name, cur, 7)
			if err != nil {
				return nil, fmt.Errorf("cursor on %s: %v", name, err)
			}
			for _, id := range ids {
				if seen[id] {
					return nil, fmt.Errorf("cursor on %s lists id %q twice", name, id)
				}
				seen[id] = true
				di.IDs = append(di.IDs, id)
			}
			if next == 0 {
				break
			}
			cur = next
		}
		sort.Strings(di.IDs)
		all := append([]string{}, di.IDs...)
		for _, id := range probe[name] {
			if !seen[id] {
				all = append(all, id)
				seen[id] = true
			}
		}
		for _, id := range all {
			vd, err := e.VGet(name, id)
			if err != nil {
				continue
			}
			di.Vecs[id] = DVec{Vec: append([]float32(nil), vd.Vector...), Meta: normMeta(vd.Metadata)}
		}
		// VGetMany must agree with VGet
		many, err := e.VGetMany(name, all)
		if err != nil {
			return nil, fmt.Errorf("VGetMany on %s: %v", name, err)
		}
		if len(many) != len(di.Vecs) {
			return nil, fmt.Errorf("VGetMany on %s returned %d items, VGet found %d", name, len(many), len(di.Vecs))
		}
		for _, vd := range many {
			one, ok := di.Vecs[vd.ID]
			if !ok {
				return nil, fmt.Errorf("VGetMany on %s returned %q which VGet does not find", name, vd.ID)
			}
			if !reflect.DeepEqual(one.Vec, append([]float32(nil), vd.Vector...)) || !reflect.DeepEqual(one.Meta, normMeta(vd.Metadata)) {
				return nil, fmt.Errorf("VGetMany and VGet disagree on %s/%s", name, vd.ID)
			}
		}
		d.Idx[name] = di
	}
	e.DB.IterateGraphEdges(func(source, target, rel string, weight float32, props []byte, cTime, dTime int64) {
		d.Edges = append(d.Edges, DEdge{Src: source, Tgt: target, Rel: rel, W: weight, Props: canonProps(props), C: cTime, D: dTime})
	})
	sort.Slice(d.Edges, func(i, j int) bool { return edgeLess(d.Edges[i], d.Edges[j]) })
	return d, nil
}

// DiffDumps compares two dumps of the same data directory (before Close / after Open).
// Vectors must be identical except on int8 indexes, where each component may move by
// one quantisation step of either quantiser range.
func DiffDumps(a, b *Dump) string {
	if !reflect.DeepEqual(a.KV, b.KV) {
		return fmt.Sprintf("KV differs: before=%q after=%q", a.KV, b.KV)
	}
	if len(a.Idx) != len(b.Idx) {
		return fmt.Sprintf("index sets differ: before=%v after=%v", idxNames(a), idxNames(b))
	}
	for name, ia := range a.Idx {
		ib := b.Idx[name]
		if ib == nil {
			return fmt.Sprintf("index %s missing after", name)
		}
		if ia.Metric != ib.Metric || ia.Prec != ib.Prec || ia.M != ib.M || ia.EfC != ib.EfC || ia.Lang != ib.Lang {
			return fmt.Sprintf("index %s config differs: before=%s/%s/M%d/ef%d/%q after=%s/%s/M%d/ef%d/%q", name, ia.Metric, ia.Prec, ia.M, ia.EfC, ia.Lang, ib.Metric, ib.Prec, ib.M, ib.EfC, ib.Lang)
		}
		if ia.Maint != ib.Maint {
			return fmt.Sprintf("index %s maintenance config differs: before=%s after=%s", name, ia.Maint, ib.Maint)
		}
		if ia.AutoLinks != ib.AutoLinks {
			return fmt.Sprintf("index %s auto-link rules differ: before=%s after=%s", name, ia.AutoLinks, ib.AutoLinks)
		}
		if ia.Memory != ib.Memory {
			return fmt.Sprintf("index %s memory config differs: before=%s after=%s", name, ia.Memory, ib.Memory)
		}
		if ia.Prec == "int8" && ia.AbsMax != ib.AbsMax {
			// the range decides how every later vector is stored (values beyond it are clipped): it is state
			return fmt.Sprintf("index %s (int8) quantiser range differs: before=%g after=%g", name, ia.AbsMax, ib.AbsMax)
		}
		if ia.Count != ib.Count || !reflect.DeepEqual(ia.IDs, ib.IDs) {
			return fmt.Sprintf("index %s ids differ: before count=%d %v after count=%d %v", name, ia.Count, ia.IDs, ib.Count, ib.IDs)
		}
		if len(ia.Vecs) != len(ib.Vecs) {
			return fmt.Sprintf("index %s readable ids differ: before=%v after=%v", name, vecKeys(ia), vecKeys(ib))
		}
		for id, va := range ia.Vecs {
			vb, ok := ib.Vecs[id]
			if !ok {
				return fmt.Sprintf("index %s id %s readable before, not after", name, id)
			}
			if !reflect.DeepEqual(va.Meta, vb.Meta) {
				return fmt.Sprintf("index %s id %s metadata differs: before=%v after=%v", name, id, va.Meta, vb.Meta)
			}
			if len(va.Vec) != len(vb.Vec) {
				return fmt.Sprintf("index %s id %s vector length differs: %d vs %d", name, id, len(va.Vec), len(vb.Vec))
			}
			for i := range va.Vec {
				if ia.Prec == "int8" {
					tol := float64(ia.AbsMax+ib.AbsMax)/254*1.02 + 1e-6
					if math.Abs(float64(va.Vec[i])-float64(vb.Vec[i])) > tol {
						return fmt.Sprintf("index %s (int8) id %s component %d moved by more than a quantisation step: before=%v (range %g) after=%v (range %g)", name, id, i, va.Vec, ia.AbsMax, vb.Vec, ib.AbsMax)
					}
				} else if ia.Metric == "cosine" && ia.Prec == "float32" {
					// stored normalised; replay re-normalises, which may move a component by an ulp (DESIGN.md section 8)
					if math.Abs(float64(va.Vec[i])-float64(vb.Vec[i])) > 1e-6*(1+math.Abs(float64(va.Vec[i]))) {
						return fmt.Sprintf("index %s id %s vector differs beyond re-normalisation noise: before=%v after=%v", name, id, va.Vec, vb.Vec)
					}
				} else if va.Vec[i] != vb.Vec[i] {
					return fmt.Sprintf("index %s id %s vector differs: before=%v after=%v", name, id, va.Vec, vb.Vec)
				}
			}
		}
	}
	if len(a.Edges) != len(b.Edges) {
		return fmt.Sprintf("edge history differs: before=%d versions after=%d versions\nbefore=%+v\nafter=%+v", len(a.Edges), len(b.Edges), a.Edges, b.Edges)
	}
	for i := range a.Edges {
		if a.Edges[i] != b.Edges[i] {
			return fmt.Sprintf("edge version %d differs: before=%+v after=%+v", i, a.Edges[i], b.Edges[i])
		}
	}
	return ""
}

func idxNames(d *Dump) []string {
	var out []string
	for n := range d.Idx {
		out = append(out, n)
	}
	sort.Strings(out)
	return out
}

func vecKeys(d *DIdx) []string {
	var out []string
	for n := range d.Vecs {
		out = append(out, n)
	}
	sort.Strings(out)
	return out
}

func toMaint(c *MaintCfg) hnsw.AutoMaintenanceConfig {
	m := hnsw.DefaultMaintenanceConfig()
	if c == nil {
		return m
	}
	m.DeleteThreshold = c.DeleteThreshold
	m.RefineEnabled = c.RefineEnabled
	m.RefineBatchSize = c.RefineBatch
	m.GraphRetention = hnsw.Duration(time.Duration(c.GraphRetentionH) * time.Hour)
	// background timers must never fire inside a case
	m.VacuumInterval = hnsw.Duration(1000 * time.Hour)
	m.RefineInterval = hnsw.Duration(1000 * time.Hour)
	m.ArenaCompaction.Enabled = false
	return m
}

func toAutoLinks(r []AutoRule) []hnsw.AutoLinkRule {
	var out []hnsw.AutoLinkRule
	for _, x := range r {
		out = append(out, hnsw.AutoLinkRule{MetadataField: x.Field, RelationType: x.Rel})
	}
	return out
}

func toMemory(c *MemCfg) *hnsw.MemoryConfig {
	if c == nil {
		return nil
	}
	m := &hnsw.MemoryConfig{Enabled: c.Enabled, DecayModel: hnsw.DecayModel(c.Model), DecayHalfLife: hnsw.Duration(time.Duration(c.HalfLifeH) * time.Hour)}
	if c.Layers {
		m.Layers = hnsw.DefaultMemoryConfig().Layers
	}
	return m
}

// vecMatches checks a vector read back against the model's base value under the
// index's metric and precision.
func vecMatches(metric, prec string, absMax float32, base, got []float32) string {
	if len(base) != len(got) {
		return fmt.Sprintf("length %d, want %d", len(got), len(base))
	}
	for i := range base {
		want := float64(base[i])
		g := float64(got[i])
		switch prec {
		case "float32":
			if metric == "cosine" {
				if math.Abs(g-want) > 2e-6*(1+math.Abs(want)) {
					return fmt.Sprintf("component %d = %v, want %v (normalised)", i, got[i], base[i])
				}
			} else if got[i] != base[i] {
				return fmt.Sprintf("component %d = %v, want %v", i, got[i], base[i])
			}
		case "float16":
			w := float16.Fromfloat32(base[i]).Float32()
			if got[i] != w {
				return fmt.Sprintf("component %d = %v, want float16(%v)=%v", i, got[i], base[i], w)
			}
		case "int8":
			am := float64(absMax)
			if am == 0 {
				if got[i] != 0 {
					return fmt.Sprintf("component %d = %v with untrained quantiser", i, got[i])
				}
				continue
			}
			c := math.Max(-am, math.Min(am, want))
			if math.Abs(g-c) > am/254*1.02+1e-7 {
				return fmt.Sprintf("component %d = %v, want clip(%v, ±%g) within one step", i, got[i], base[i], am)
			}
		}
	}
	return ""
}

// CheckAgainstModel compares a dump with the model.
func CheckAgainstModel(d *Dump, m *Model) string {
	// KV
	if len(d.KV) != len(m.KV) {
		return fmt.Sprintf("KV has %d keys %v, model %d %v", len(d.KV), kvKeys(d.KV), len(m.KV), kvKeysB(m.KV))
	}
	for k, v := range m.KV {
		g, ok := d.KV[k]
		if !ok {
			return fmt.Sprintf("KV key %q missing", k)
		}
		if !bytes.Equal([]byte(g), v) {
			return fmt.Sprintf("KV key %q = %q, model %q", k, g, v)
		}
	}
	if len(d.Idx) != len(m.Idx) {
		return fmt.Sprintf("indexes %v, model %v", idxNames(d), mIdxNames(m))
	}
	for name, mi := range m.Idx {
		di := d.Idx[name]
		if di == nil {
			return fmt.Sprintf("index %s missing (have %v)", name, idxNames(d))
		}
		wantM, wantEf := mi.Cfg.M, mi.Cfg.EfC
		if wantM <= 0 {
			wantM = 16
		}
		if wantEf <= 0 {
			wantEf = 200
		}
		if di.Metric != mi.Cfg.Metric || di.Prec != mi.Prec || di.M != wantM || di.EfC != wantEf || di.Lang != mi.Cfg.Lang {
			return fmt.Sprintf("index %s config %s/%s/M%d/ef%d/%q, model %s/%s/M%d/ef%d/%q", name, di.Metric, di.Prec, di.M, di.EfC, di.Lang, mi.Cfg.Metric, mi.Prec, wantM, wantEf, mi.Cfg.Lang)
		}
		wm, _ := json.Marshal(toMaint(mi.Maint))
		if mi.Maint == nil {
			wm, _ = json.Marshal(hnsw.DefaultMaintenanceConfig())
		}
		if di.Maint != string(wm) {
			return fmt.Sprintf("index %s maintenance config %s, model %s", name, di.Maint, wm)
		}
		wa := "[]"
		if len(mi.AutoLink) > 0 {
			b, _ := json.Marshal(toAutoLinks(mi.AutoLink))
			wa = string(b)
		}
		if di.AutoLinks != wa {
			return fmt.Sprintf("index %s auto-links %s, model %s", name, di.AutoLinks, wa)
		}
		wmem := "{}"
		if mc := toMemory(mi.Cfg.Memory); mc != nil {
			wmem = memJSON(*mc)
		}
		if di.Memory != wmem {
			return fmt.Sprintf("index %s memory config %s, model %s", name, di.Memory, wmem)
		}
		var live []string
		for id := range mi.Live {
			live = append(live, id)
		}
		sort.Strings(live)
		if di.Count != len(live) {
			return fmt.Sprintf("index %s count %d, model %d (cursor ids %v, model live %v)", name, di.Count, len(live), di.IDs, live)
		}
		if !reflect.DeepEqual(di.IDs, live) && !(len(di.IDs) == 0 && len(live) == 0) {
			return fmt.Sprintf("index %s cursor ids %v, model live %v", name, di.IDs, live)
		}
		for id := range di.Vecs {
			if mi.Live[id] == nil {
				return fmt.Sprintf("index %s: VGet(%s) succeeds but the id is not live in the model", name, id)
			}
		}
		for id, mv := range mi.Live {
			dv, ok := di.Vecs[id]
			if !ok {
				return fmt.Sprintf("index %s: VGet(%s) fails but the id is live", name, id)
			}
			if msg := vecMatches(mi.Cfg.Metric, mi.Prec, di.AbsMax, mv.Base, dv.Vec); msg != "" {
				return fmt.Sprintf("index %s id %s vector %v: %s (model base %v)", name, id, dv.Vec, msg, mv.Base)
			}
			if !reflect.DeepEqual(dv.Meta, normMeta(mv.Meta)) {
				return fmt.Sprintf("index %s id %s metadata %v, model %v", name, id, dv.Meta, normMeta(mv.Meta))
			}
		}
	}
	// edges (full version history)
	me := make([]DEdge, 0, len(m.Edges))
	for _, e := range m.Edges {
		me = append(me, DEdge{Src: e.Src, Tgt: e.Tgt, Rel: e.Rel, W: e.W, Props: e.Props, C: e.C, D: e.D})
	}
	sort.Slice(me, func(i, j int) bool { return edgeLess(me[i], me[j]) })
	if len(me) != len(d.Edges) {
		return fmt.Sprintf("edge history has %d versions, model %d\n engine=%+v\n model=%+v", len(d.Edges), len(me), d.Edges, me)
	}
	for i := range me {
		if me[i] != d.Edges[i] {
			return fmt.Sprintf("edge version differs: engine=%+v model=%+v", d.Edges[i], me[i])
		}
	}
	return ""
}

func kvKeys(m map[string]string) []string {
	var out []string
	for k := range m {
		out = append(out, k)
	}
	sort.Strings(out)
	return out
}

func kvKeysB(m map[string][]byte) []string {
	var out []string
	for k := range m {
		out = append(out, k)
	}
	sort.Strings(out)
	return out
}

func mIdxNames(m *Model) []string {
	var out []string
	for k := range m.Idx {
		out = append(out, k)
	}
	sort.Strings(out)
	return out
}
