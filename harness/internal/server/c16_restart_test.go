package server

// C16 part "restart": issue / revoke / persist / restart histories on one data
// directory. Revoked tokens stay rejected, unrevoked ones stay accepted.

import (
	"encoding/json"
	"fmt"
	"path/filepath"
	"strings"
	"testing"
	"time"

	"github.com/sanonone/kektordb/internal/verifkit"
	"github.com/sanonone/kektordb/pkg/engine"
	"pgregory.net/rapid"
)

// c16HOp is one step of a history. Everything is done the way an operator
// would do it: over HTTP with the root token.
//
//	issue     POST /auth/keys {role, namespaces:["*"]}          -> token slot Slot
//	revoke    DELETE /auth/keys/{jti of slot}
//	snapshot  POST /system/save
//	rewrite   POST /system/aof-rewrite (+ wait for the task)
//	write     PUT /kv/{key} (ordinary traffic between the auth operations)
//	restart   close engine and server, reopen the same data directory
//	kv_unrevoke  the token of slot By (read/write role, live) sends DELETE /kv/_sys_auth::revoked::<jti of Slot>
//	kv_revoke    the token of slot By (read/write role, live) sends PUT /kv/_sys_auth::revoked::<jti of Slot>
//	             (neither may change which tokens are accepted: a non-admin token must not administer auth)
type c16HOp struct {
	Kind string `json:"kind"`
	Slot int    `json:"slot,omitempty"`
	Role string `json:"role,omitempty"`
	By   int    `json:"by,omitempty"`
}

type c16History struct {
	Ops []c16HOp `json:"ops"`
}

type c16HTok struct {
	tok, jti string
	role     string
	revoked  bool
}

type c16HRun struct {
	dir     string
	cleanup func()
	eng     *engine.Engine
	srv     *Server
	toks    map[int]*c16HTok
}

func (r *c16HRun) open() error {
	eng, err := engine.Open(c16EngineOpts(r.dir))
	if err != nil {
		return fmt.Errorf("engine.Open: %v", err)
	}
	r.eng = eng
	s, err := NewServer(eng, ":0", "", c16Root, r.dir, "", nil)
	if err != nil {
		return fmt.Errorf("NewServer: %v", err)
	}
	r.srv = s
	return nil
}

func (r *c16HRun) close() {
	if r.srv != nil {
		r.srv.taskManager.StopCleanup()
		r.srv = nil
	}
	if r.eng != nil {
		_ = r.eng.Close()
		r.eng = nil
	}
}

func (r *c16HRun) do(method, target, tok, body string) c16Resp {
	e := &c16Env{srv: r.srv, h: r.srv.httpServer.Handler}
	s := c16Sent{Method: method, Target: target, Body: body}
	if tok != "" {
		s.HasHdr, s.Auth = true, "Bearer "+tok
	}
	resp, _ := e.send(s)
	return resp
}

// verify checks every token issued so far against the running server.
func (r *c16HRun) verify(when string) string {
	for slot := 0; slot < 16; slot++ {
		t := r.toks[slot]
		if t == nil {
			continue
		}
		resp := r.do("GET", "/vector/indexes", t.tok, "")
		if t.revoked && !c16Denied(resp.Status) {
			return fmt.Sprintf("%s: revoked %s-role token of slot %d (jti %s) is served again: GET /vector/indexes -> %d", when, t.role, slot, t.jti, resp.Status)
		}
		if !t.revoked && c16Denied(resp.Status) {
			return fmt.Sprintf("%s: unrevoked %s-role token of slot %d (jti %s) is rejected: GET /vector/indexes -> %d %s", when, t.role, slot, t.jti, resp.Status, strings.TrimSpace(resp.Body))
		}
	}
	return ""
}

func c16RunHistory(h c16History) string {
	dir, cleanup := verifkit.TempDir("c16h")
	defer cleanup()
	r := &c16HRun{dir: filepath.Join(dir, "data"), toks: map[int]*c16HTok{}}
	if err := r.open(); err != nil {
		return "HARNESS: " + err.Error()
	}
	defer r.close()
	nwrite := 0
	for i, op := range h.Ops {
		at := fmt.Sprintf("op %d (%s)", i, op.Kind)
		switch op.Kind {
		case "issue":
			if r.toks[op.Slot] != nil {
				continue
			}
			resp := r.do("POST", "/auth/keys", c16Root, fmt.Sprintf(`{"description":"h","role":%q,"namespaces":["*"]}`, op.Role))
			if resp.Status != 200 {
				return fmt.Sprintf("HARNESS: %s: root POST /auth/keys -> %d %s", at, resp.Status, resp.Body)
			}
			var out struct {
				Token  string `json:"token"`
				Policy struct {
					ID string `json:"id"`
				} `json:"policy"`
			}
			if err := json.Unmarshal([]byte(resp.Body), &out); err != nil || out.Token == "" || out.Policy.ID == "" {
				return fmt.Sprintf("HARNESS: %s: unexpected answer %s", at, resp.Body)
			}
			r.toks[op.Slot] = &c16HTok{tok: out.Token, jti: out.Policy.ID, role: op.Role}
		case "revoke":
			t := r.toks[op.Slot]
			if t == nil || t.revoked {
				continue
			}
			resp := r.do("DELETE", "/auth/keys/"+t.jti, c16Root, "")
			if resp.Status != 200 {
				return fmt.Sprintf("HARNESS: %s: root DELETE /auth/keys/%s -> %d %s", at, t.jti, resp.Status, resp.Body)
			}
			t.revoked = true
		case "snapshot":
			resp := r.do("POST", "/system/save", c16Root, "")
			if resp.Status != 200 {
				return fmt.Sprintf("HARNESS: %s: root POST /system/save -> %d %s", at, resp.Status, resp.Body)
			}
		case "rewrite":
			resp := r.do("POST", "/system/aof-rewrite", c16Root, "")
			if resp.Status != 202 {
				return fmt.Sprintf("HARNESS: %s: root POST /system/aof-rewrite -> %d %s", at, resp.Status, resp.Body)
			}
			var task struct {
				ID string `json:"id"`
			}
			_ = json.Unmarshal([]byte(resp.Body), &task)
			deadline := time.Now().Add(20 * time.Second)
			for {
				st := r.do("GET", "/system/tasks/"+task.ID, c16Root, "")
				if strings.Contains(st.Body, `"completed"`) {
					break
				}
				if strings.Contains(st.Body, `"failed"`) || time.Now().After(deadline) {
					return fmt.Sprintf("HARNESS: %s: rewrite task did not complete: %s", at, st.Body)
				}
				time.Sleep(time.Millisecond)
			}
		case "write":
			nwrite++
			resp := r.do("PUT", fmt.Sprintf("/kv/k%d", nwrite%3), c16Root, fmt.Sprintf(`{"value":"w%d"}`, nwrite))
			if resp.Status != 200 {
				return fmt.Sprintf("HARNESS: %s: root PUT /kv -> %d %s", at, resp.Status, resp.Body)
			}
		case "kv_unrevoke", "kv_revoke":
			t, by := r.toks[op.Slot], r.toks[op.By]
			if t == nil || by == nil || by.revoked || by.role == "admin" || op.By == op.Slot {
				continue
			}
			if op.Kind == "kv_unrevoke" {
				r.do("DELETE", "/kv/_sys_auth::revoked::"+t.jti, by.tok, "")
			} else {
				r.do("PUT", "/kv/_sys_auth::revoked::"+t.jti, by.tok, `{"value":"1"}`)
			}
		case "restart":
			r.close()
			if err := r.open(); err != nil {
				return fmt.Sprintf("%s: the data directory does not open again: %v", at, err)
			}
		default:
			return "HARNESS: unknown op " + op.Kind
		}
		if msg := r.verify("after " + at); msg != "" {
			return msg
		}
	}
	return ""
}

func c16GenHOp() *rapid.Generator[c16HOp] {
	return rapid.Custom(func(t *rapid.T) c16HOp {
		k := c16U(t, "k", 100)
		switch {
		case k < 24:
			return c16HOp{Kind: "issue", Slot: c16U(t, "slot", 3), Role: c16Pick(t, "role", []string{"read", "write", "admin"})}
		case k < 44:
			return c16HOp{Kind: "revoke", Slot: c16U(t, "slot", 3)}
		case k < 54:
			return c16HOp{Kind: "snapshot"}
		case k < 62:
			return c16HOp{Kind: "rewrite"}
		case k < 68:
			return c16HOp{Kind: "write"}
		case k < 76:
			return c16HOp{Kind: c16Pick(t, "kvkind", []string{"kv_unrevoke", "kv_revoke"}), Slot: c16U(t, "slot", 3), By: c16U(t, "by", 3)}
		default:
			return c16HOp{Kind: "restart"}
		}
	})
}

func c16GenHistory() *rapid.Generator[c16History] {
	return rapid.Custom(func(t *rapid.T) c16History {
		return c16History{Ops: rapid.SliceOfN(c16GenHOp(), 3, 16).Draw(t, "ops")}
	})
}

func c16HistoryNT(h c16History) (nt bool, labels []string) {
	issued, revoked := map[int]bool{}, map[int]bool{}
	persisted := "none"
	for _, op := range h.Ops {
		switch op.Kind {
		case "issue":
			issued[op.Slot] = true
		case "revoke":
			if issued[op.Slot] {
				revoked[op.Slot] = true
			}
		case "snapshot", "rewrite":
			persisted = op.Kind
		case "restart":
			if len(issued) > 0 {
				nt = true
				labels = append(labels, "restart-after:"+persisted)
				if len(revoked) > 0 {
					labels = append(labels, "restart-with-revoked")
				}
				if len(revoked) < len(issued) {
					labels = append(labels, "restart-with-live")
				}
			}
			persisted = "none"
		}
	}
	return nt, labels
}

func TestVerif_C16_restart(t *testing.T) {
	c16Quiet()
	col := verifkit.New("C16", "restart", "histories of issue / revoke / snapshot / aof-rewrite / ordinary write / restart (close + reopen of the same data directory) driven over HTTP with the root token; after every step every issued token is presented: revoked ones must be refused, the others accepted. Non-trivial = a restart happens while at least one token has been issued")
	defer col.Finish()
	if p := verifkit.ReplayPath(); p != "" {
		if verifkit.ReplayPart(p) != "restart" {
			return
		}
		var h c16History
		if err := verifkit.LoadReplay(p, &h); err != nil {
			t.Fatal(err)
		}
		col.Case(h, true, "replay")
		msg := c16RunHistory(h)
		if strings.HasPrefix(msg, "HARNESS:") {
			t.Fatal(msg)
		}
		if msg != "" {
			col.Fail(h, "%s", msg)
			t.Fatal(msg)
		}
		return
	}
	verifkit.RapidSetup(120, 1200)
	rapid.Check(t, func(rt *rapid.T) {
		h := c16GenHistory().Draw(rt, "history")
		nt, labels := c16HistoryNT(h)
		col.Case(h, nt, labels...)
		msg := c16RunHistory(h)
		if strings.HasPrefix(msg, "HARNESS:") {
			t.Fatal(msg)
		}
		if msg != "" {
			col.Fail(h, "%s", msg)
			rt.Fatalf("%s", msg)
		}
	})
}
