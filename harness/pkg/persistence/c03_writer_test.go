package persistence

// C03, part "writer": "every command appended to the log is read back identical ... in original order" for
// the component that appends - AOFWriter (byte buffer of a configurable size in front of the file) alone or
// behind LazyAOFWriter (entry buffer + periodic flushes). The codec part feeds frames straight into a
// bytes.Buffer; here the commands take the production path into a real file, with payload sizes generated
// around the write-buffer capacity (a frame that fits, fills the buffer exactly, exceeds it by a few bytes,
// is several buffers long), mixed with small ones, and Flush/Sync calls at generated positions. After every
// Flush/Sync and after Close the file is parsed back frame by frame and must hold exactly the commands
// appended so far, in append order.

import (
	"bufio"
	"bytes"
	"fmt"
	"io"
	"os"
	"path/filepath"
	"testing"

	"github.com/sanonone/kektordb/internal/verifkit"
	"pgregory.net/rapid"
)

type c03WStep struct {
	K    string `json:"k"`              // write | flush | sync
	Size int    `json:"size,omitempty"` // write: length of the value argument
	Fill byte   `json:"fill,omitempty"`
}

type c03WCase struct {
	Buf   int        `json:"buf"`  // AOFWriter buffer size (0 = default)
	Lazy  bool       `json:"lazy"` // LazyAOFWriter in front
	LazyN int        `json:"lazy_n,omitempty"`
	Steps []c03WStep `json:"steps"`
}

func c03WBufCap(c c03WCase) int {
	if c.Buf <= 0 {
		return DefaultAOFWriteBufferSize
	}
	if c.Buf < 16 {
		return 16 // bufio's minimum
	}
	return c.Buf
}

// c03WPayload: the command appended by write step number seq.
func c03WPayload(seq int, st c03WStep) (name string, args [][]byte) {
	v := bytes.Repeat([]byte{st.Fill}, st.Size)
	if st.Size >= 8 {
		copy(v, fmt.Sprintf("%08d", seq)) // the value itself says which write it belongs to
	}
	return "SET", [][]byte{[]byte(fmt.Sprintf("k%d", seq)), v}
}

func c03WRun(c c03WCase) (msg string, overtakeShape bool) {
	dir, cleanup := verifkit.TempDir("c03w")
	defer cleanup()
	path := filepath.Join(dir, "log.aof")
	under, err := NewAOFWriter(path, c.Buf)
	if err != nil {
		return "harness: " + err.Error(), false
	}
	type wr interface {
		Write(string) error
		Flush() error
		Sync() error
		Close() error
	}
	var w wr = under
	if c.Lazy {
		w = NewLazyAOFWriterWithConfig(under, DefaultLazyFlushInterval, DefaultForceSyncInterval, c.LazyN)
	}
	closed := false
	defer func() {
		if !closed {
			w.Close()
		}
	}()
	type appended struct {
		name string
		args [][]byte
	}
	var log []appended
	verify := func(when string) string {
		b, err := os.ReadFile(path)
		if err != nil {
			return "harness: " + err.Error()
		}
		r := bytes.NewReader(b)
		for i, a := range log {
			payload, _, err := ReadFrame(r)
			if err != nil {
				return fmt.Sprintf("%s: frame %d of %d appended: ReadFrame: %v", when, i, len(log), err)
			}
			got, err := ParseCommand(bufio.NewReader(bytes.NewReader(payload)))
			if err != nil {
				return fmt.Sprintf("%s: frame %d: ParseCommand: %v", when, i, err)
			}
			if got.Name != a.name || len(got.Args) != len(a.args) {
				return fmt.Sprintf("%s: frame %d: read back %s with %d args, appended %s with %d args", when, i, got.Name, len(got.Args), a.name, len(a.args))
			}
			for j := range a.args {
				if !bytes.Equal(got.Args[j], a.args[j]) {
					return fmt.Sprintf("%s: frame %d arg %d: read back %d bytes (prefix %q), appended %d bytes (prefix %q): the log does not hold the commands in append order",
						when, i, j, len(got.Args[j]), c03WPrefix(got.Args[j]), len(a.args[j]), c03WPrefix(a.args[j]))
				}
			}
		}
		if _, _, err := ReadFrame(r); err != io.EOF {
			return fmt.Sprintf("%s: after the %d appended commands the file holds something else (ReadFrame: %v)", when, len(log), err)
		}
		return ""
	}
	capBytes := c03WBufCap(c)
	pendingSmall := false // a frame smaller than the buffer was appended since the last flush
	for i, st := range c.Steps {
		switch st.K {
		case "write":
			name, args := c03WPayload(len(log), st)
			payload := FormatCommand(name, args...)
			if HeaderSize+len(payload) > capBytes && pendingSmall {
				overtakeShape = true
			}
			if HeaderSize+len(payload) < capBytes {
				pendingSmall = true
			}
			if err := w.Write(payload); err != nil {
				return fmt.Sprintf("step %d: Write of %d bytes: %v", i, len(payload), err), overtakeShape
			}
			log = append(log, appended{name, args})
		case "flush", "sync":
			var err error
			if st.K == "flush" {
				err = w.Flush()
			} else {
				err = w.Sync()
			}
			if err != nil {
				return fmt.Sprintf("step %d: %s: %v", i, st.K, err), overtakeShape
			}
			pendingSmall = false
			if m := verify(fmt.Sprintf("after step %d (%s)", i, st.K)); m != "" {
				return m, overtakeShape
			}
		}
	}
	closed = true
	if err := w.Close(); err != nil {
		return "Close: " + err.Error(), overtakeShape
	}
	return verify("after Close"), overtakeShape
}

func c03WPrefix(b []byte) string {
	if len(b) > 12 {
		return string(b[:12])
	}
	return string(b)
}

func c03WGen() *rapid.Generator[c03WCase] {
	return rapid.Custom(func(t *rapid.T) c03WCase {
		c := c03WCase{Buf: rapid.SampledFrom([]int{16, 64, 200, 1024, 4096, 0}).Draw(t, "buf")}
		c.Lazy = rapid.IntRange(0, 2).Draw(t, "lazy") == 0
		if c.Lazy {
			c.LazyN = rapid.SampledFrom([]int{0, 1, 2, 5}).Draw(t, "lazy-n")
		}
		capBytes := c03WBufCap(c)
		n := rapid.IntRange(2, 14).Draw(t, "n")
		if capBytes > 4096 {
			n = rapid.IntRange(2, 6).Draw(t, "n-big")
		}
		for i := 0; i < n; i++ {
			switch k := rapid.IntRange(0, 9).Draw(t, "k"); {
			case k == 0:
				c.Steps = append(c.Steps, c03WStep{K: "flush"})
			case k == 1:
				c.Steps = append(c.Steps, c03WStep{K: "sync"})
			default:
				st := c03WStep{K: "write", Fill: rapid.SampledFrom([]byte{'x', 0xA5, '\n', 0, 'q'}).Draw(t, "fill")}
				// frame = header + RESP envelope (~30 bytes) + value
				switch rapid.IntRange(0, 5).Draw(t, "size-class") {
				case 0, 1:
					st.Size = rapid.IntRange(0, 40).Draw(t, "small")
				case 2:
					st.Size = capBytes - 60 + rapid.IntRange(0, 80).Draw(t, "edge") // around "exactly fills the buffer"
				case 3:
					st.Size = capBytes + rapid.IntRange(1, 64).Draw(t, "over")
				case 4:
					st.Size = capBytes*rapid.IntRange(2, 3).Draw(t, "mult") + rapid.IntRange(0, 9).Draw(t, "plus")
				default:
					st.Size = rapid.IntRange(0, capBytes).Draw(t, "any")
				}
				if st.Size < 0 {
					st.Size = 0
				}
				c.Steps = append(c.Steps, st)
			}
		}
		return c
	})
}

func TestVerif_C03_writer(t *testing.T) {
	col := verifkit.New("C03", "writer",
		"rapid-generated append sequences through the real AOFWriter (buffer 16 B - 64 KiB), alone or behind LazyAOFWriter (entry buffer 1-1000): 2-14 steps of write (value sizes small / around the buffer capacity / just over it / 2-3 buffers long / anything below) and Flush/Sync; after every Flush/Sync and after Close the file is parsed back frame by frame and must hold exactly the appended commands in append order; non-trivial = a frame larger than the write buffer is appended while a smaller one has not been flushed yet")
	defer col.Finish()
	if p := verifkit.ReplayPath(); p != "" {
		if verifkit.ReplayPart(p) != "writer" {
			return
		}
		var c c03WCase
		if err := verifkit.LoadReplay(p, &c); err != nil {
			t.Fatal(err)
		}
		col.Case(c, true, "replay")
		if msg, _ := c03WRun(c); msg != "" {
			col.Fail(c, "%s", msg)
			t.Fatal(msg)
		}
		return
	}
	verifkit.RapidSetup(600, 12000)
	rapid.Check(t, func(rt *rapid.T) {
		c := c03WGen().Draw(rt, "case")
		msg, shape := c03WRun(c)
		labels := []string{fmt.Sprintf("buffer-%d", c03WBufCap(c))}
		if c.Lazy {
			labels = append(labels, "behind-lazy-writer")
		}
		if shape {
			labels = append(labels, "big-frame-after-unflushed-small-frame")
		}
		col.Case(c, shape, labels...)
		if msg != "" {
			if len(msg) > 8 && msg[:8] == "harness:" {
				rt.Skip(msg)
			}
			col.Fail(c, "%s", msg)
			rt.Fatalf("%s", msg)
		}
	})
}
