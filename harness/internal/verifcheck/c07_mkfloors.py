#!/usr/bin/env python3
"""Derive the C07 recall floors from measurement dumps (run on the UNCHANGED tree).

    VERIF_SEED=<s> VERIF_SCALE=8 VERIF_C07_DUMP=/tmp/c07m/run<s>/t bin/check C07 thorough   # several seeds
    python3 harness/internal/verifcheck/c07_mkfloors.py '/tmp/c07m/run*/t.*.json' > harness/internal/verifcheck/c07_floors_test.go

A new anchor is measured alone and its records are added to the input set:
    VERIF_SEED=<s> VERIF_SCALE=0.002 VERIF_C07_ANCHORS=26 VERIF_C07_ANCHOR_ONLY=<name> VERIF_C07_DUMP=/tmp/c07m/<dir>/t bin/check C07 thorough
(16 shards x 26 = 416 seeds; keep the records with case.anchor == <name>). When the generator's vocabulary grows (e.g. the
del80 / del90 phases), campaigns run with the new generator are ADDED to the input set (first check that they do not
violate the floors in force: --xval style, function violations()).

Every checkpoint carries its class (c07Class: M / efConstruction / data kind / hardness / [int8] / build path).
Generated cases: a class gets a floor when it was seen in >= 15 cases and >= 40 checkpoints (>= 40 with an
eligible self query). floor = min(mean - 10 sd, min - MARGIN) where sd is the sample standard deviation but at least
SDMIN (recall) or 1/30 (self-retrieval: 30 queries per checkpoint). The classes are heterogeneous mixtures with heavy
lower tails (leave-one-campaign-out validation showed new samples up to 0.38 below the minimum of 7000 cases), hence
MARGIN = 0.40 and SDMIN = 0.03. Restored fast-import graphs (class suffix R) and the "zeros" data kind (a clique of more than 2*M identical vectors, which no
proximity graph with degree bound 2*M keeps connected) get none; nor do int8 indexes in 2-3 dimensions, where the
quantiser (trained on the first vector only) clips most vectors onto a handful of identical codes - the same clique problem.
Anchor checkpoints (class "anchor:<name>#<i>", one fixed configuration, >= 100 seeds): homogeneous, so
floor = min(mean - 10 sd, min - 3 sd) with sd >= 0.002 (recall, 2000 neighbour slots) / 0.01 (self, 100 queries).
Exception: HEAVY_ANCHORS (six separated clusters: the distribution is a mixture "all clusters reachable" / "k clusters
not routed to", worst value of 400 seeds 10-13 sd below the mean, split-half validation of the 10-sd rule fails) use the
rule of the generated classes, min(mean - 10 sd, min - MARGIN) with sd >= SDMIN.
"""
import glob, json, math, sys, collections

import os
HEAVY_ANCHORS = ('anchor:clusters-refine#',)
SDMIN, MARGIN = 0.03, float(os.environ.get('C07_MARGIN', '0.40'))

def load(pats):
    recs = []
    for pat in pats:
        for f in sorted(glob.glob(pat)):
            recs += json.load(open(f))
    return recs

def floors(recs):
    by = collections.defaultdict(list)
    cases = collections.defaultdict(set)
    for i, r in enumerate(recs):
        for p in r['points']:
            if p['live'] < 50 or p['class'].endswith('R') or '/zeros/' in p['class'] or '/lowdim/int8/' in p['class']:
                continue  # observed only: restored fast-import graphs; cliques of > 2*M identical vectors (zero vectors,
                          # or 2-3 dimensional vectors whose int8 codes collapse because the quantiser clips to the range
                          # of the first vector it saw)
            by[p['class']].append(p)
            cases[p['class']].add(i)
    out, skipped = {}, []
    for k in sorted(by):
        pts = by[k]
        selfs = [p['self'] for p in pts if p['self'] >= 0]
        anchor = k.startswith('anchor:')
        if anchor:
            if len(pts) < 100 or len(selfs) < 100:
                skipped.append((k, len(cases[k]), len(pts)))
                continue
        elif len(cases[k]) < 15 or len(pts) < 40 or len(selfs) < 40:
            skipped.append((k, len(cases[k]), len(pts)))
            continue
        def st(v, res):
            n = len(v); m = sum(v) / n
            sd = max(res, math.sqrt(sum((x - m) ** 2 for x in v) / (n - 1)))
            mn = min(v)
            return (m, sd, mn, min(m - 10 * sd, mn - 3 * sd) if anchor else min(m - 10 * sd, mn - MARGIN))
        heavy = k.startswith(HEAVY_ANCHORS)
        if heavy:
            anchor = False  # st() below: heavy-tail rule
        if anchor:
            out[k] = (len(pts), len(cases[k]), st([p['recall_ef0'] for p in pts], 0.002),
                      st([p['recall_ef100'] for p in pts], 0.002), st(selfs, 0.01))
        else:
            out[k] = (len(pts), len(cases[k]), st([p['recall_ef0'] for p in pts], SDMIN),
                      st([p['recall_ef100'] for p in pts], SDMIN), st(selfs, max(SDMIN, 1 / 30.0)))
    return out, skipped

def violations(fl, recs):
    n = v = 0
    bad = []
    for r in recs:
        for p in r['points']:
            if p['live'] < 50 or p['class'] not in fl:
                continue
            f = fl[p['class']]; n += 1
            m = []
            if p['recall_ef0'] < f[2][3]: m.append(('R0', round(p['recall_ef0'], 3), round(f[2][3], 3)))
            if p['recall_ef100'] < f[3][3]: m.append(('R1', round(p['recall_ef100'], 3), round(f[3][3], 3)))
            if p['self'] >= 0 and p['self'] < f[4][3]: m.append(('S', round(p['self'], 3), round(f[4][3], 3)))
            if m:
                v += 1; bad.append((p['class'], p['after'], m))
    return n, v, bad

if __name__ == '__main__':
    if sys.argv[1] == '--xval':
        # leave-one-campaign-out: floors from all other campaigns applied to the held-out one
        groups = [load([g]) for g in sys.argv[2:]]
        for i, held in enumerate(groups):
            rest = [r for j, g in enumerate(groups) if j != i for r in g]
            fl, _ = floors(rest)
            n, v, bad = violations(fl, held)
            print('held-out %s: %d classes with floor, %d checkpoints judged, %d below floor' % (sys.argv[2 + i], len(fl), n, v))
            for b in bad: print('   ', b)
        sys.exit(0)
    recs = load(sys.argv[1:])
    fl, skipped = floors(recs)
    def S(t): return 'c07Stat{Mean: %.4f, Sd: %.4f, Min: %.4f, Floor: %.4f}' % t
    print('package verifcheck\n')
    print('// GENERATED by c07_mkfloors.py from the measurement campaign on the unchanged tree')
    print('// (%d cases, %d checkpoints; %d classes with a floor, %d classes seen too rarely). Do not edit.' % (
        len(recs), sum(len(r['points']) for r in recs), len(fl), len(skipped)))
    print('var c07Floors = map[string]c07Floor{')
    for k, (npts, ncases, r0, r1, sf) in fl.items():
        print('\t%s: {Points: %d, Cases: %d,\n\t\tR0:   %s,\n\t\tR1:   %s,\n\t\tSelf: %s},' % (json.dumps(k), npts, ncases, S(r0), S(r1), S(sf)))
    print('}')
